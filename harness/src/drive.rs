//! drive — executes jobs against the real avra-rs library and records what happened.
//!
//! The driver never judges a result.  It reads one JSON job per line on stdin, runs it
//! through the public API of `avra_lib` and writes one JSON line per job on stdout
//! (flushed after every job so that a supervising process can tell which job killed it).
//!
//! Job kinds (`k`):
//!   str      {id, src}                                  -> build_str(src)
//!   file     {id, root, files{rel:text}, cwd, main, paths[]} -> materialise, chdir, build_file
//!   trace    {id, src | (root, cwd, main, paths)}       -> build with hooks on: result + events of the passes
//!   hex      {id, which, n, seed, path}                 -> fill image with Img(seed,i), write_*_hex(path)
//!   seq      {id, srcs[]}                               -> build each source in order, same thread
//!   threads  {id, srcs[], reps}                         -> one thread per source, unsynchronised, reps builds each
//!   sched    {id, srcs[], order[]}                      -> one thread per source, stage-gated in `order`
//!   stages   {id, src}                                  -> parse_str / pass0 / pass1 / pass2 separately, labels reported
//!   product  {id, head, dict[], arity, pre}           -> every `head op, op, op` over the dictionary, outcomes aggregated
//!   devices  {id}                                      -> the public DEVICES table as data
//!   ping     {id}
use std::collections::BTreeSet;
use std::io::{BufRead, Write};
use std::panic::{catch_unwind, AssertUnwindSafe};
use std::path::PathBuf;
use std::sync::{Arc, Condvar, Mutex};

use avra_lib::builder::pass0::build_pass_0;
use avra_lib::builder::pass1::build_pass_1;
use avra_lib::builder::pass2::build_pass_2;
use avra_lib::builder::{build_file, build_str, BuildResult};
use avra_lib::context::CommonContext;
use avra_lib::parser::parse_str;
use avra_lib::writer::{write_code_hex, write_eeprom_hex};
use serde_json::{json, Value};

fn hex(b: &[u8]) -> String {
    const D: &[u8; 16] = b"0123456789abcdef";
    let mut s = String::with_capacity(b.len() * 2);
    for x in b {
        s.push(D[(x >> 4) as usize] as char);
        s.push(D[(x & 15) as usize] as char);
    }
    s
}

fn panic_text(p: Box<dyn std::any::Any + Send>) -> String {
    if let Some(s) = p.downcast_ref::<&str>() {
        s.to_string()
    } else if let Some(s) = p.downcast_ref::<String>() {
        s.clone()
    } else {
        "panic".to_string()
    }
}

fn result_json<E: std::fmt::Display>(r: std::thread::Result<Result<BuildResult, E>>) -> Value {
    match r {
        Ok(Ok(b)) => json!({
            "r": "ok",
            "code": hex(&b.code),
            "eeprom": hex(&b.eeprom),
            "fs": b.flash_size, "es": b.eeprom_size, "rs": b.ram_size, "rf": b.ram_filling,
            "msgs": b.messages,
        }),
        Ok(Err(e)) => json!({"r": "err", "text": format!("{}", e)}),
        Err(p) => json!({"r": "panic", "text": panic_text(p)}),
    }
}

fn run_str(src: &str) -> Value {
    result_json(catch_unwind(AssertUnwindSafe(|| build_str(src))))
}

/// build_str with the verification hooks switched on: the result plus the events the passes emitted.
fn run_trace(j: &Value) -> Value {
    avra_lib::verif::start();
    let mut r = if j.get("main").is_some() {
        run_file(j)
    } else {
        run_str(&s(j, "src"))
    };
    let events: Vec<Value> = avra_lib::verif::take()
        .iter()
        .map(|e| serde_json::from_str(e).unwrap_or(json!({"ev": "unparsable", "text": e})))
        .collect();
    r["events"] = Value::Array(events);
    r
}

/// Same as run_str but reports image lengths instead of contents (for multi-megabyte images).
fn run_str_lens(src: &str) -> Value {
    let mut r = run_str(src);
    if r["r"] == "ok" {
        let cl = r["code"].as_str().map(|x| x.len() / 2).unwrap_or(0);
        let el = r["eeprom"].as_str().map(|x| x.len() / 2).unwrap_or(0);
        r["code_len"] = json!(cl);
        r["eeprom_len"] = json!(el);
        r["code"] = json!("");
        r["eeprom"] = json!("");
    }
    r
}

/// The specification's image pattern (IHex.tla, Img): every byte value occurs, and the
/// pattern differs across 256-byte and 64 KiB blocks so that a shifted block is visible.
fn img(seed: u64, i: u64) -> u8 {
    let pattern = (((i % 256) * 7 + seed * 13 + ((i / 256) % 256) * 3 + (i / 65536) * 5) % 256) as u8;
    match seed {
        7 => 0xff,
        8 => 0x00,
        9 => {
            if (i / 16) % 3 == 1 {
                0xff
            } else {
                pattern
            }
        }
        _ => pattern,
    }
}

fn s(j: &Value, k: &str) -> String {
    j.get(k).and_then(|v| v.as_str()).unwrap_or("").to_string()
}

fn run_file(j: &Value) -> Value {
    let root = PathBuf::from(s(j, "root"));
    if let Some(files) = j.get("files").and_then(|v| v.as_object()) {
        for (rel, text) in files {
            let p = root.join(rel);
            if let Some(parent) = p.parent() {
                let _ = std::fs::create_dir_all(parent);
            }
            if std::fs::write(&p, text.as_str().unwrap_or("")).is_err() {
                return json!({"r": "tool", "text": format!("cannot write {:?}", p)});
            }
        }
    }
    if let Some(dirs) = j.get("dirs").and_then(|v| v.as_array()) {
        for d in dirs {
            let _ = std::fs::create_dir_all(root.join(d.as_str().unwrap_or("")));
        }
    }
    // symbolic links: [path of the link, what it points to]
    if let Some(links) = j.get("links").and_then(|v| v.as_array()) {
        for l in links {
            let at = root.join(l[0].as_str().unwrap_or(""));
            if let Some(parent) = at.parent() {
                let _ = std::fs::create_dir_all(parent);
            }
            let _ = std::fs::remove_file(&at);
            if std::os::unix::fs::symlink(l[1].as_str().unwrap_or(""), &at).is_err() {
                return json!({"r": "tool", "text": format!("cannot link {:?}", at)});
            }
        }
    }
    // named pipes nobody writes to
    if let Some(fifos) = j.get("fifos").and_then(|v| v.as_array()) {
        for f in fifos {
            let p = root.join(f.as_str().unwrap_or(""));
            if let Ok(c) = std::ffi::CString::new(p.to_string_lossy().as_bytes()) {
                unsafe {
                    libc::mkfifo(c.as_ptr(), 0o600);
                }
            }
        }
    }
    let cwd = root.join(s(j, "cwd"));
    if std::env::set_current_dir(&cwd).is_err() {
        return json!({"r": "tool", "text": format!("cannot chdir {:?}", cwd)});
    }
    let main = PathBuf::from(s(j, "main"));
    let paths: BTreeSet<PathBuf> = j
        .get("paths")
        .and_then(|v| v.as_array())
        .map(|a| a.iter().map(|p| PathBuf::from(p.as_str().unwrap_or(""))).collect())
        .unwrap_or_default();
    let r = result_json(catch_unwind(AssertUnwindSafe(|| build_file(main, paths))));
    let _ = std::env::set_current_dir("/");
    r
}

fn run_hex(j: &Value) -> Value {
    let n = j.get("n").and_then(|v| v.as_u64()).unwrap_or(0);
    let seed = j.get("seed").and_then(|v| v.as_u64()).unwrap_or(0);
    let which = s(j, "which");
    let path = PathBuf::from(s(j, "path"));
    let image: Vec<u8> = (0..n).map(|i| img(seed, i)).collect();
    let prefill = j.get("prefill").and_then(|v| v.as_u64()).unwrap_or(0);
    if prefill > 0 {
        // the path already holds an older, longer output
        let old: String = (0..prefill).map(|_| ":10000000FFFFFFFFFFFFFFFFFFFFFFFFFFFFFFFF00\r\n").collect();
        let _ = std::fs::write(&path, old);
    }
    let mut br = BuildResult {
        code: vec![],
        eeprom: vec![],
        flash_size: 0,
        eeprom_size: 0,
        ram_size: 0,
        ram_filling: 0,
        messages: vec![],
    };
    if which == "code" {
        br.code = image;
    } else {
        br.eeprom = image;
    }
    let r = catch_unwind(AssertUnwindSafe(|| {
        if which == "code" {
            write_code_hex(path.clone(), &br)
        } else {
            write_eeprom_hex(path.clone(), &br)
        }
    }));
    let mut out = match r {
        Ok(Ok(())) => json!({"r": "ok", "path": path.to_string_lossy()}),
        Ok(Err(e)) => json!({"r": "err", "text": format!("{}", e)}),
        Err(p) => json!({"r": "panic", "text": panic_text(p)}),
    };
    // the same result object, its image rewritten in place (same buffer, same length), written once more
    if let Some(seed2) = j.get("again_seed").and_then(|v| v.as_u64()) {
        let buffer = if which == "code" { &mut br.code } else { &mut br.eeprom };
        for (i, b) in buffer.iter_mut().enumerate() {
            *b = img(seed2, i as u64);
        }
        let path2 = PathBuf::from(format!("{}.2", path.to_string_lossy()));
        let r2 = catch_unwind(AssertUnwindSafe(|| {
            if which == "code" {
                write_code_hex(path2.clone(), &br)
            } else {
                write_eeprom_hex(path2.clone(), &br)
            }
        }));
        out["again"] = match r2 {
            Ok(Ok(())) => json!({"r": "ok", "path": path2.to_string_lossy()}),
            Ok(Err(e)) => json!({"r": "err", "text": format!("{}", e)}),
            Err(p) => json!({"r": "panic", "text": panic_text(p)}),
        };
    }
    out
}

fn srcs(j: &Value) -> Vec<String> {
    j.get("srcs")
        .and_then(|v| v.as_array())
        .map(|a| a.iter().map(|x| x.as_str().unwrap_or("").to_string()).collect())
        .unwrap_or_default()
}

fn run_seq(j: &Value) -> Value {
    let out: Vec<Value> = srcs(j).iter().map(|x| run_str(x)).collect();
    json!({"r": "ok", "results": out})
}

fn run_threads(j: &Value) -> Value {
    let reps = j.get("reps").and_then(|v| v.as_u64()).unwrap_or(1);
    let handles: Vec<_> = srcs(j)
        .into_iter()
        .map(|src| {
            std::thread::spawn(move || {
                let mut distinct: Vec<Value> = vec![];
                for _ in 0..reps {
                    let r = run_str(&src);
                    if !distinct.contains(&r) {
                        distinct.push(r);
                    }
                }
                distinct
            })
        })
        .collect();
    let out: Vec<Value> = handles
        .into_iter()
        .map(|h| match h.join() {
            Ok(d) => Value::Array(d),
            Err(_) => json!([{"r": "panic", "text": "thread died"}]),
        })
        .collect();
    json!({"r": "ok", "results": out})
}

/// Concurrent file builds: the files are written once, then every `mains` entry (absolute paths, no
/// chdir) is built `reps` times in a thread of its own; the distinct results per thread are reported.
fn run_fthreads(j: &Value) -> Value {
    let root = PathBuf::from(s(j, "root"));
    if let Some(files) = j.get("files").and_then(|v| v.as_object()) {
        for (rel, text) in files {
            let p = root.join(rel);
            if let Some(parent) = p.parent() {
                let _ = std::fs::create_dir_all(parent);
            }
            if std::fs::write(&p, text.as_str().unwrap_or("")).is_err() {
                return json!({"r": "tool", "text": format!("cannot write {:?}", p)});
            }
        }
    }
    let reps = j.get("reps").and_then(|v| v.as_u64()).unwrap_or(1);
    let paths: BTreeSet<PathBuf> = j
        .get("paths")
        .and_then(|v| v.as_array())
        .map(|a| a.iter().map(|p| root.join(p.as_str().unwrap_or(""))).collect())
        .unwrap_or_default();
    let mains: Vec<PathBuf> = j
        .get("mains")
        .and_then(|v| v.as_array())
        .map(|a| a.iter().map(|p| root.join(p.as_str().unwrap_or(""))).collect())
        .unwrap_or_default();
    let handles: Vec<_> = mains
        .into_iter()
        .map(|main| {
            let paths = paths.clone();
            std::thread::spawn(move || {
                let mut distinct: Vec<Value> = vec![];
                for _ in 0..reps {
                    let r = result_json(catch_unwind(AssertUnwindSafe(|| build_file(main.clone(), paths.clone()))));
                    if !distinct.contains(&r) {
                        distinct.push(r);
                    }
                }
                distinct
            })
        })
        .collect();
    let out: Vec<Value> = handles
        .into_iter()
        .map(|h| match h.join() {
            Ok(d) => Value::Array(d),
            Err(_) => json!([{"r": "panic", "text": "thread died"}]),
        })
        .collect();
    json!({"r": "ok", "results": out})
}

/// Stage-gated build: the four public stage functions, with a turn taken before each.
struct GateState {
    pos: usize,
    finished: Vec<bool>,
}

struct Gate {
    order: Vec<usize>,
    st: Mutex<GateState>,
    cv: Condvar,
}

impl Gate {
    fn skip_finished(&self, st: &mut GateState) {
        while st.pos < self.order.len() && st.finished[self.order[st.pos]] {
            st.pos += 1;
        }
    }
    /// Blocks until it is thread `t`'s turn, runs `f`, then passes the turn on.
    fn turn<T>(&self, t: usize, f: impl FnOnce() -> T) -> T {
        {
            let mut st = self.st.lock().unwrap();
            loop {
                self.skip_finished(&mut st);
                if st.pos >= self.order.len() || self.order[st.pos] == t {
                    break;
                }
                st = self.cv.wait(st).unwrap();
            }
        }
        let r = f();
        let mut st = self.st.lock().unwrap();
        if st.pos < self.order.len() && self.order[st.pos] == t {
            st.pos += 1;
        }
        self.skip_finished(&mut st);
        self.cv.notify_all();
        r
    }
    /// A thread that is done (normally, or early through an error) gives up its remaining turns.
    fn finish(&self, t: usize) {
        let mut st = self.st.lock().unwrap();
        st.finished[t] = true;
        self.skip_finished(&mut st);
        self.cv.notify_all();
    }
}

fn staged_build(src: &str, t: usize, gate: &Gate) -> Value {
    let r = catch_unwind(AssertUnwindSafe(|| -> Result<BuildResult, failure::Error> {
        let cc = CommonContext::new();
        let parsed = gate.turn(t, || parse_str(src, &cc))?;
        let p0 = gate.turn(t, || build_pass_0(parsed, &cc))?;
        let p1 = gate.turn(t, || build_pass_1(p0, &cc))?;
        let p2 = gate.turn(t, || build_pass_2(p1, &cc))?;
        use avra_lib::context::Context;
        let device = cc.get_device();
        Ok(BuildResult {
            code: p2.code,
            eeprom: p2.eeprom,
            flash_size: device.flash_size,
            eeprom_size: device.eeprom_size,
            ram_size: device.ram_size,
            ram_filling: p2.ram_filling,
            messages: p2.messages,
        })
    }));
    gate.finish(t);
    result_json(r)
}

fn run_sched(j: &Value) -> Value {
    let order: Vec<usize> = j
        .get("order")
        .and_then(|v| v.as_array())
        .map(|a| a.iter().map(|x| x.as_u64().unwrap_or(0) as usize).collect())
        .unwrap_or_default();
    let sources = srcs(j);
    let gate = Arc::new(Gate {
        order,
        st: Mutex::new(GateState { pos: 0, finished: vec![false; sources.len()] }),
        cv: Condvar::new(),
    });
    let handles: Vec<_> = sources
        .into_iter()
        .enumerate()
        .map(|(t, src)| {
            let gate = gate.clone();
            std::thread::spawn(move || staged_build(&src, t, &gate))
        })
        .collect();
    let out: Vec<Value> = handles
        .into_iter()
        .map(|h| h.join().unwrap_or_else(|_| json!({"r": "panic", "text": "thread died"})))
        .collect();
    json!({"r": "ok", "results": out})
}

/// Stage-by-stage build through the public stage functions; reports the label table
/// after pass 1 so that label values can be compared without going through the image.
fn run_stages(j: &Value) -> Value {
    let src = s(j, "src");
    let r = catch_unwind(AssertUnwindSafe(|| -> Result<Value, failure::Error> {
        let cc = CommonContext::new();
        let parsed = parse_str(&src, &cc)?;
        let p0 = build_pass_0(parsed, &cc)?;
        let p1 = build_pass_1(p0, &cc)?;
        let mut labels: Vec<(String, String, u32)> = cc
            .labels
            .borrow()
            .iter()
            .map(|(k, v)| (k.clone(), format!("{}", v.0), v.1))
            .collect();
        labels.sort();
        let p2 = build_pass_2(p1, &cc)?;
        Ok(json!({"r": "ok", "labels": labels, "code": hex(&p2.code), "eeprom": hex(&p2.eeprom), "rf": p2.ram_filling}))
    }));
    match r {
        Ok(Ok(v)) => v,
        Ok(Err(e)) => json!({"r": "err", "text": format!("{}", e)}),
        Err(p) => json!({"r": "panic", "text": panic_text(p)}),
    }
}

/// Walks the product head x operand tuples (up to `arity` operands from `dict`) for one head and
/// aggregates outcomes per first operand; every outcome other than ok / err is listed explicitly.
fn run_product(j: &Value) -> Value {
    let head = s(j, "head");
    let dict: Vec<String> = j
        .get("dict")
        .and_then(|v| v.as_array())
        .map(|a| a.iter().map(|x| x.as_str().unwrap_or("").to_string()).collect())
        .unwrap_or_default();
    let arity = j.get("arity").and_then(|v| v.as_u64()).unwrap_or(2) as usize;
    let pre = s(j, "pre");
    let n = dict.len();
    let mut groups: Vec<Value> = vec![];
    let mut run_group = |first: Option<usize>| {
        let mut count = 0u64;
        let mut ok = 0u64;
        let mut err = 0u64;
        let mut other: Vec<Value> = vec![];
        let mut tuples: Vec<Vec<usize>> = vec![];
        match first {
            None => tuples.push(vec![]),
            Some(a) => {
                tuples.push(vec![a]);
                if arity >= 2 {
                    for b in 0..n {
                        tuples.push(vec![a, b]);
                        if arity >= 3 {
                            for c in 0..n {
                                tuples.push(vec![a, b, c]);
                            }
                        }
                    }
                }
            }
        }
        for t in tuples {
            let ops: Vec<&str> = t.iter().map(|&i| dict[i].as_str()).collect();
            let src = format!("{}{} {}\n", pre, head, ops.join(", "));
            let r = run_str(&src);
            count += 1;
            match r["r"].as_str().unwrap_or("") {
                "ok" => ok += 1,
                "err" => err += 1,
                x => other.push(json!({"ops": t, "outcome": x, "text": r["text"], "src": src})),
            }
        }
        groups.push(json!({"first": first.map(|x| x as i64).unwrap_or(-1), "count": count, "ok": ok, "err": err, "other": other}));
    };
    run_group(None);
    for a in 0..n {
        run_group(Some(a));
    }
    json!({"r": "ok", "head": head, "groups": groups})
}

/// Dumps the public device table as data (capacities and feature-flag names).
fn run_devices() -> Value {
    let mut rows: Vec<Value> = avra_lib::device::DEVICES
        .iter()
        .map(|(name, d)| {
            json!({
                "name": name, "flash": d.flash_size, "ramstart": d.ram_start, "ramsize": d.ram_size,
                "eeprom": d.eeprom_size,
                "flags": d.disable_opts.iter().map(|f| format!("{:?}", f)).collect::<Vec<String>>(),
            })
        })
        .collect();
    rows.sort_by(|a, b| a["name"].as_str().cmp(&b["name"].as_str()));
    json!({"r": "ok", "devices": rows})
}

fn dispatch(j: &Value) -> Value {
    match s(j, "k").as_str() {
        "str" => {
            // "cwd": the working directory of the process at the time of this build
            let cwd = s(j, "cwd");
            if !cwd.is_empty() && std::env::set_current_dir(&cwd).is_err() {
                return json!({"r": "tool", "text": format!("cannot chdir {:?}", cwd)});
            }
            if j.get("nohex").and_then(|v| v.as_bool()).unwrap_or(false) {
                run_str_lens(&s(j, "src"))
            } else {
                run_str(&s(j, "src"))
            }
        }
        "file" => run_file(j),
        "trace" => run_trace(j),
        "hex" => run_hex(j),
        "seq" => run_seq(j),
        "threads" => run_threads(j),
        "fthreads" => run_fthreads(j),
        "sched" => run_sched(j),
        "stages" => run_stages(j),
        "ping" => json!({"r": "ok"}),
        "devices" => run_devices(),
        "product" => run_product(j),
        other => json!({"r": "tool", "text": format!("unknown job kind {}", other)}),
    }
}

fn main() {
    std::panic::set_hook(Box::new(|_| {}));
    let args: Vec<String> = std::env::args().collect();
    let watchdog: u32 = args.get(1).and_then(|x| x.parse().ok()).unwrap_or(0);
    let stdin = std::io::stdin();
    let stdout = std::io::stdout();
    let mut out = stdout.lock();
    for line in stdin.lock().lines() {
        let line = match line {
            Ok(l) => l,
            Err(_) => break,
        };
        if line.trim().is_empty() {
            continue;
        }
        let j: Value = match serde_json::from_str(&line) {
            Ok(v) => v,
            Err(e) => {
                let _ = writeln!(out, "{}", json!({"r": "tool", "text": format!("bad job: {}", e)}));
                continue;
            }
        };
        if watchdog > 0 {
            unsafe {
                libc::alarm(watchdog);
            }
        }
        let t0 = std::time::Instant::now();
        // "stack": n -- the job runs in a thread with an n-byte stack (a library user's worker thread)
        let stack = j.get("stack").and_then(|v| v.as_u64()).unwrap_or(0) as usize;
        let mut r = if stack > 0 {
            let jj = j.clone();
            match std::thread::Builder::new().stack_size(stack).spawn(move || dispatch(&jj)) {
                Ok(h) => h.join().unwrap_or_else(|_| json!({"r": "panic", "text": "thread died"})),
                Err(e) => json!({"r": "tool", "text": format!("cannot spawn: {}", e)}),
            }
        } else {
            dispatch(&j)
        };
        if watchdog > 0 {
            unsafe {
                libc::alarm(0);
            }
        }
        r["id"] = j.get("id").cloned().unwrap_or(Value::Null);
        r["us"] = json!(t0.elapsed().as_micros() as u64);
        let _ = writeln!(out, "{}", r);
        let _ = out.flush();
    }
}
