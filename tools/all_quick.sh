#!/bin/sh
# all_quick.sh [seed] : every quick check in sequence, one summary line each
S=${1:-0}
for p in C01 C02 C03 C04 C05 C06 C07 C08 C09 C10 C11 C12 C13 C14 C15 C16 C17 C18; do
  t0=$(date +%s)
  out=$(timeout 1500 ./check $p --tier quick --seed $S 2>&1); rc=$?
  echo "$p rc=$rc $(( $(date +%s) - t0 ))s $(echo "$out" | grep -E '^(VIOLATION|KNOWN-FINDING|TOOL|OK)' | head -3 | tr '\n' ' ' | cut -c1-220)"
done
