"""Hook-level trace validation (implementation -> specification): builds are run with the
verification hooks on, the events the passes emit are normalised and replayed one per step through
Trace_Pipeline.tla.  Needs no abstract program, so it is applied to inputs nobody generated: the
repository's fixtures, the shipped part-definition files, the repository's own test suite run with
the feature, besides the programs of the checks themselves."""
import glob
import json
import os
import re
import subprocess

from common import *

MN = re.compile(r"^instr (\w+)(?:\((\w+)\))?")


def norm_kind(kind):
    """'instr br(ne)' -> ('instr', 'brne'); 'data dw 2 2' -> ('data', w, n, len); ..."""
    out = {"k": "sym", "mn": "", "w": 0, "n": 0, "len": 0}
    if kind.startswith("instr"):
        m = MN.match(kind)
        out["k"] = "instr"
        if m:
            out["mn"] = (m.group(1) + (m.group(2) or "")) if m.group(1) in ("br", "se", "cl") else m.group(1)
    elif kind.startswith("label"):
        out["k"] = "label"
    elif kind.startswith("data"):
        p = kind.split()
        out["k"] = "data"
        out["w"] = {"db": 1, "dw": 2, "dd": 4, "dq": 8}.get(p[1], 0)
        if len(p) >= 4:
            out["n"], out["len"] = int(p[2]), int(p[3])
    elif kind.startswith("byte"):
        out["k"] = "byte"
        try:
            out["n"] = int(kind.split()[1])
        except (IndexError, ValueError):
            out["n"] = -1
    elif kind == "pragma":
        out["k"] = "pragma"
    return out


BIG = 1 << 30


def normalize(events, result=None, max_image=40000):
    """Hook events of one or more builds -> records for Trace_Pipeline; None if an image is too large to replay."""
    out = []
    for e in events:
        ev = e.get("ev")
        if ev in ("item1", "item2"):
            r = {"ev": ev, "t": e["t"], "line": e["line"], "addr": e["addr"]}
            r.update(norm_kind(e["kind"]))
            if ev == "item1":
                r["size"] = e["size"]
            else:
                r["bytes"] = list(bytes.fromhex(e["bytes"]))
            if r["n"] >= BIG or r["addr"] >= BIG or r.get("size", 0) >= BIG:
                return None
            out.append(r)
        elif ev == "limits":
            if e["code_len"] > max_image or e["eeprom_len"] > max_image:
                return None
            r = dict(e)
            r["has_images"] = True
            r["code"] = list(bytes.fromhex(e["code"]))
            r["eeprom_image"] = list(bytes.fromhex(e["eeprom_image"]))
            out.append(r)
        elif ev in ("seg1", "seg2", "pass1", "pass2"):
            if any(isinstance(v, int) and v >= BIG for v in e.values()):
                return None
            if ev == "seg2" and (e["code_len"] > max_image or e["eeprom_len"] > max_image):
                return None
            out.append(dict(e))
        elif ev in ("rbegin", "rend"):
            out.append({"ev": ev})
        elif ev in ("rline", "sline", "mline"):
            out.append({"ev": ev, "ln": e.get("ln", 0), "cls": e.get("cls", "other"), "taken": e.get("taken", -1)})
    if result is not None:
        out.append({"ev": "end", "r": result})
    return out


def corrupt_stream(evs):
    """Binding self-test: three corrupted copies of a stream; each must produce at least one unexplained event."""
    import copy
    outs = []
    a = copy.deepcopy(evs)
    for e in a:
        if e["ev"] == "item2" and e.get("bytes"):
            e["addr"] += 1
            break
    outs.append(a)
    b = copy.deepcopy(evs)
    for e in b:
        if e["ev"] == "item1" and e["k"] == "instr":
            e["size"] += 1
            break
    outs.append(b)
    c = copy.deepcopy(evs)
    for i, e in enumerate(c):
        if e["ev"] == "item2" and e["k"] == "instr" and e.get("bytes"):
            e["bytes"][1] ^= 0x80
            break
    outs.append(c)
    # reader events: a line of a selected branch reported as passed over; a condition reported with the other outcome
    d = copy.deepcopy(evs)
    for e in d:
        if e["ev"] == "rline" and e["cls"] == "other":
            e["ev"] = "sline"
            outs.append(d)
            break
    f = copy.deepcopy(evs)
    for i, e in enumerate(f):
        if e["ev"] == "rline" and e["cls"] in ("if", "ifdef", "ifndef") and e["taken"] in (0, 1) and \
                any(x["ev"] in ("rline", "sline") and x["cls"] == "other" for x in f[i + 1:i + 3]):
            e["taken"] = 1 - e["taken"]
            outs.append(f)
            break
    return outs


def validate_builds(jobs, scratch, label="builds"):
    """jobs: trace jobs (k = 'trace').  Returns (violations: list of dicts, coverage dict)."""
    res = run_jobs(jobs, workers=1 if any("main" in j for j in jobs) else None)
    streams, owners, skipped = [], [], 0
    for j in jobs:
        r = res[j["id"]]
        evs = normalize(r.get("events", []), r["r"])
        if evs is None:
            skipped += 1
            continue
        if len(evs) > 1:
            streams.append(evs)
            owners.append(j)
    return validate_streams(streams, owners, scratch, label, skipped)


def validate_streams(streams, owners, scratch, label, skipped=0):
    # binding self-test on the first stream that has an emitted instruction
    good = [s for s in streams if any(e["ev"] == "item2" and e["k"] == "instr" and e.get("bytes") for e in s) and any(e["ev"] == "pass1" for e in s)]
    base = next((s for s in good if any(e["ev"] == "rline" and e["cls"] in ("if", "ifdef", "ifndef") for e in s)), good[0] if good else None)
    canaries = corrupt_stream(base) if base else []
    chunks, index, cur, curidx = [], [], [], []
    for si, s in enumerate(streams + canaries):
        if len(cur) + len(s) > 30000 and cur:
            chunks.append(cur); index.append(curidx)
            cur, curidx = [], []
        cur += s
        curidx += [si] * len(s)
    if cur:
        chunks.append(cur); index.append(curidx)
    if not chunks:
        return [], {"streams": 0}
    rejected, stats = validate_chunks(chunks, "Trace_Pipeline", scratch)
    bad_streams = {}
    for (k, i), exp in rejected.items():
        bad_streams.setdefault(index[k][i], []).append((chunks[k][i], exp))
    ncan = sum(1 for ci in range(len(streams), len(streams) + len(canaries)) if ci in bad_streams)
    if ncan != len(canaries):
        raise ToolError("pipeline binding self-test failed: %d of %d corrupted event streams had an unexplained event" % (ncan, len(canaries)))
    viol = []
    for si in sorted(bad_streams):
        if si >= len(streams):
            continue
        ev, exp = bad_streams[si][0]
        o = owners[si]
        viol.append({"tag": "pipeline." + label, "source": o.get("src", o.get("main", ""))[:3000], "prog": [],
                     "observed": {"r": "event", "event": {k: v for k, v in ev.items() if k not in ("code", "eeprom_image")}},
                     "expected": {"ok": False, "phase": "pipeline:" + ev["ev"], "unexplained_events": len(bad_streams[si])}})
    nev = sum(len(s) for s in streams)
    kinds = {}
    for s in streams:
        for e in s:
            kinds[e["ev"]] = kinds.get(e["ev"], 0) + 1
    cov = {"streams": len(streams), "events": nev, "event_kinds": kinds, "skipped_large_images": skipped,
           "binding_selftest": "%d/%d corrupted streams rejected" % (ncan, len(canaries)),
           "states": stats["states"], "transitions": stats["transitions"]}
    return viol, cov


def fixture_jobs(scratch):
    """The repository's fixtures and every shipped part-definition file (included from a two-line program)."""
    jobs = []
    root = scratch.sub("fixtures")
    os.makedirs(os.path.join(root, "proj"), exist_ok=True)
    inc = os.path.join(REPO, "includes")
    for p in sorted(glob.glob(os.path.join(REPO, "tests", "*.asm"))):
        jobs.append({"k": "trace", "id": len(jobs), "root": REPO, "cwd": "", "main": os.path.relpath(p, REPO), "paths": [inc, os.path.join(REPO, "tests")]})
    for p in sorted(glob.glob(os.path.join(inc, "*def.inc"))):
        name = os.path.basename(p)
        src = '.include "%s"\n.dseg\nvar: .byte 2\n.cseg\nstart: ldi r16, low(RAMEND)\nrjmp start\n.db "x", 1\n' % name
        fn = "use_%s.asm" % name.replace(".inc", "")
        jobs.append({"k": "trace", "id": len(jobs), "root": root, "cwd": "proj", "files": {"proj/" + fn: src}, "main": fn, "paths": [inc]})
    return jobs


def suite_streams(scratch):
    """The repository's own test suite, run with the hooks compiled in and AVRA_VERIF_TRACE set."""
    trace = scratch.path("suite-trace.ndjson")
    tdir = os.path.join(HARNESS, "target", "suite")
    env = dict(os.environ, AVRA_VERIF_TRACE=trace, CARGO_NET_OFFLINE="true")
    p = subprocess.run(["cargo", "test", "--offline", "--features", "verif", "--lib", "--manifest-path", os.path.join(REPO, "Cargo.toml"),
                        "--target-dir", tdir, "--", "--test-threads=1"], env=env, stdout=subprocess.PIPE, stderr=subprocess.STDOUT, text=True)
    m = re.search(r"test result: (\w+)\. (\d+) passed; (\d+) failed", p.stdout)
    if not m:
        raise ToolError("could not run the repository's tests with the hooks: " + p.stdout[-600:])
    events = []
    if os.path.exists(trace):
        with open(trace) as f:
            for ln in f:
                try:
                    events.append(json.loads(ln))
                except ValueError:
                    pass
    # cut into streams at every pass1 event (a pass2 without pass1 before it starts a stream of its own)
    # (the reader events of a build come first: a new stream also starts at the first outermost `rbegin` after a pass event)
    streams, cur, depth, passed = [], [], 0, False
    for e in events:
        ev = e.get("ev")
        if cur and passed and (ev == "pass1" or (ev == "rbegin" and depth == 0)):
            streams.append(cur)
            cur, passed = [], False
        if ev == "rbegin":
            depth += 1
        elif ev == "rend":
            depth = max(0, depth - 1)
        elif ev in ("pass1", "pass2", "limits"):
            passed = True
        cur.append(e)
    if cur:
        streams.append(cur)
    out = []
    for s in streams:
        n = normalize(s)
        if n:
            out.append(n)
    return out, {"suite_result": m.group(0), "suite_events": len(events)}
