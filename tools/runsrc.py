"""runsrc.py: source text on stdin -> the harness's result for build_str (debug helper)."""
import json, subprocess, sys, os
src = sys.stdin.read()
j = {"k": "str", "id": 0, "src": src}
p = subprocess.run([os.path.join(os.path.dirname(__file__), "..", "harness", "target", "release", "drive"), "20"], input=json.dumps(j) + "\n", capture_output=True, text=True)
print(p.stdout.strip()[:600] or "DIED rc=%d" % p.returncode)
