"""Program-level checks (C02 C03 C06 C08 C09 C10 C12 C14 C15): abstract programs are
generated (bounded-exhaustive over small alphabets plus seeded random larger ones),
rendered, built by the real code, and every result is judged by TLC against
Assembler!Run (Trace_Asm)."""
import copy
import itertools
import json
import random

from common import *
from prog import *
import isa as isamod


class Case:
    __slots__ = ("prog", "src", "mat", "chkline", "msg_texts", "tag", "devs", "spell")

    def __init__(self, prog, tag="", mat=True, chkline=False, msg_texts=(), spell=None, spells=None):
        self.prog = prog
        self.src = render(prog, spell=spell, spells=spells)
        self.mat, self.chkline, self.msg_texts, self.tag = mat, chkline, tuple(msg_texts), tag


def corrupt(ev):
    """Binding self-test: a copy of an event with one recorded field changed."""
    e = copy.deepcopy(ev)
    r = e["res"]
    if r["r"] == "ok":
        if r["code"]:
            r["code"][len(r["code"]) // 2] ^= 0x04
        elif r["eeprom"]:
            r["eeprom"][0] ^= 0x80
        else:
            r["ramfill"] += 1
    else:
        r["r"] = "ok"
    return e


def run_cases(prop, tier, seed, cases, devices, matcher=None, keyf=None, rule="", assumptions=(), extra_cov=None,
              exhaustive=False, module="Trace_Asm", chunk=None, mc=None):
    """Executes cases, has TLC judge them, files rejections as violations / known findings."""
    scratch = Scratch(prop)
    v = Verdict(prop, tier, seed, "model_checking")
    try:
        jobs = [{"k": "str", "id": i, "src": c.src} for i, c in enumerate(cases)]
        res = run_jobs(jobs)
        events = []
        for i, c in enumerate(cases):
            events.append(event(c.prog, res[i], devs_for(c.prog, devices), c.mat, c.chkline, c.msg_texts))
        oks = [i for i, e in enumerate(events) if e["res"]["r"] == "ok"]
        errs = [i for i, e in enumerate(events) if e["res"]["r"] == "err"]
        can = [corrupt(events[i]) for i in (oks[:1] + oks[len(oks) // 2:len(oks) // 2 + 1] + errs[:1])]
        rejected, stats = validate_events(events + can, module, scratch, chunk=chunk)
        ncan = sum(1 for i in range(len(events), len(events) + len(can)) if i in rejected)
        for i in sorted(rejected):
            if i >= len(events):
                continue
            c = cases[i]
            r = res[i]
            obs = {k: r.get(k) for k in ("r", "code", "eeprom", "fs", "es", "rs", "rf", "msgs", "text") if k in r}
            if len(obs.get("code", "")) > 600:
                obs["code"] = obs["code"][:600] + "..."
            v.reject({"tag": c.tag, "source": c.src, "prog": clean(c.prog), "observed": obs, "expected": rejected[i]}, matcher)
        if keyf:
            v.summary(keyf)
        srcs = {c.src for c in cases}
        v.coverage.update({
            "states": stats["states"], "transitions": stats["transitions"],
            "traces_validated_against_impl": len(events),
            "evaluations": len(events), "distinct_nontrivial": len({s for s in srcs if s.strip()}),
            "rule": rule or "one build_str per abstract program; distinct = distinct rendered sources; non-trivial = non-empty source",
            "observed_ok": len(oks), "observed_err": len(errs),
            "observed_other": len(events) - len(oks) - len(errs),
            "rejected_events": len([i for i in rejected if i < len(events)]),
            "binding_selftest": "%d/%d corrupted events rejected" % (ncan, len(can)),
            "tags": _count(c.tag for c in cases),
            "tlc": stats, "exhaustive": exhaustive,
            "samples": [{"tag": cases[i].tag, "source": cases[i].src, "observed": events[i]["res"]["r"]} for i in
                        sorted(random.Random(seed).sample(range(len(cases)), min(5, len(cases))))],
        })
        if mc:
            v.coverage["model_checking_of_spec"] = mc
            v.coverage["states"] += mc.get("states", 0)
            v.coverage["transitions"] += mc.get("transitions", 0)
        if extra_cov:
            v.coverage.update(extra_cov)
        v.assumptions += list(assumptions) + [
            "TLC and the CommunityModules Json/IOUtils/Bitwise overrides",
            "renderer and recorder (tools/prog.py, harness/src/drive.rs) are mechanical and faithful",
        ]
        if ncan != len(can):
            raise ToolError("binding self-test failed: %d of %d corrupted events were rejected" % (ncan, len(can)))
        return v.finish()
    finally:
        scratch.cleanup()


def _count(it):
    c = {}
    for x in it:
        c[x] = c.get(x, 0) + 1
    return c


def default_key(x):
    exp = x["expected"]
    return (x["tag"], x["observed"]["r"], "expected " + ("ok" if exp.get("ok") else "err@%s" % exp.get("phase")))


# ========================================================================================
# C02 -- layout

ONE_WORD = [lambda: instr("nop"), lambda: instr("ldi", R(16), E(0x5a)), lambda: instr("mov", R(3), R(4)),
            lambda: instr("ld", R(5), IX("X", "inc"))]
TWO_WORD = [lambda: instr("jmp", E(0x1234)), lambda: instr("call", E(0x3f0001))]


def data_item(rnd, kind):
    if kind == "db1":
        return data(1, E(rnd.randrange(256)))
    if kind == "db2":
        return data(1, E(rnd.randrange(256)), E(rnd.randrange(256)))
    if kind == "db3":
        return data(1, E(1), S("ab"))
    if kind == "dbs":
        return data(1, S("x" * rnd.randrange(0, 6)))
    if kind == "dw":
        return data(2, *[E(rnd.randrange(65536)) for _ in range(rnd.randrange(1, 3))])
    if kind == "dd":
        return data(4, E(rnd.randrange(1 << 31)))
    if kind == "dq":
        return data(8, E(rnd.randrange(1 << 40)))


C02_DEVS = ["", "ATmega48", "ATtiny20", "ATmega2560", "ATtiny13"]


def layout_item(rnd, kind, labels):
    """One abstract line of the layout alphabet; `labels` collects names defined."""
    if kind == "w1":
        return rnd.choice(ONE_WORD)()
    if kind == "w2":
        return rnd.choice(TWO_WORD)()
    if kind == "lds":
        return instr("lds", R(16 + rnd.randrange(16)), E(0x60 + rnd.randrange(0x40)))
    if kind in ("db1", "db2", "db3", "dbs", "dw", "dd", "dq"):
        return data_item(rnd, kind)
    if kind == "byte":
        return byte(rnd.choice([1, 2, 3, 7]))
    if kind == "label":
        n = "l%d" % len(labels)
        labels.append(n)
        return label(n)
    if kind in ("code", "data", "eeprom"):
        return seg(kind)
    raise ValueError(kind)


def observe_labels(prog, labels):
    """Appends a table of .dw <label> in the code segment so that label values are in the image."""
    if labels:
        prog.append(seg("code"))
        for n in labels:
            prog.append(data(2, E(sym(n))))


def orgs_well_placed(prog):
    """The shapes the property is silent on are not generated: an .org must be followed, within its
    segment block, by something that occupies space."""
    for i, l in enumerate(prog):
        if l["k"] == "org":
            j = i + 1
            while j < len(prog) and prog[j]["k"] == "blank":
                j += 1
            if j >= len(prog) or prog[j]["k"] not in ("instr", "data", "byte"):
                return False
    return True


def gen_layout_exhaustive(maxlen, devs):
    """All sequences up to maxlen over the layout alphabet x device classes."""
    alpha = ["w1", "w2", "lds", "db1", "db2", "db3", "dw", "dq", "byte", "label", "org+", "code", "data", "eeprom"]
    rnd = random.Random(1)
    out = []
    for n in range(1, maxlen + 1):
        for seq in itertools.product(alpha, repeat=n):
            # prune sequences that cannot exercise anything new: two segment switches in a row, leading .cseg
            if any(a in ("code", "data", "eeprom") and b in ("code", "data", "eeprom") for a, b in zip(seq, seq[1:])):
                continue
            if seq[-1] in ("org+", "code", "data", "eeprom"):
                continue
            for dev in devs:
                if dev != devs[0] and "lds" not in seq and "data" not in seq:
                    continue        # the device only matters for lds length and RAM start
                labels, prog, cur, cnt = [], [], "code", {"code": 0, "data": 0, "eeprom": 0}
                if dev:
                    prog.append(line("device", n=dev))
                for k in seq:
                    if k == "org+":
                        # forward by 3 units from a conservative upper bound of the counter
                        prog.append(org(cnt[cur] + 3 + (0x100 if cur == "data" else 0)))
                        cnt[cur] += 3
                    else:
                        prog.append(layout_item(rnd, k, labels))
                        if k in ("code", "data", "eeprom"):
                            cur = k
                        else:
                            cnt[cur] += 8
                observe_labels(prog, labels)
                if orgs_well_placed(prog):
                    out.append(Case(prog, tag="exh%d" % n))
    return out


def gen_layout_random(rnd, n, devs):
    out = []
    kinds = ["w1", "w1", "w2", "lds", "db1", "db2", "db3", "dbs", "dw", "dd", "dq", "label", "label"]
    for _ in range(n):
        dev = rnd.choice(devs)
        prog, labels = [], []
        if dev:
            prog.append(line("device", n=dev))
        cur = "code"
        cnt = {"code": 0, "data": 0x100 if dev in ("ATmega48",) else 0x200 if dev == "ATmega2560" else 0x40 if dev == "ATtiny20" else 0x60, "eeprom": 0}
        faulty = rnd.random() < 0.12
        for _ in range(rnd.randrange(5, 60)):
            x = rnd.random()
            if x < 0.12:
                cur = rnd.choice(["code", "data", "eeprom"])
                prog.append(seg(cur))
                continue
            if x < 0.20:
                back = faulty and rnd.random() < 0.3
                target = cnt[cur] + rnd.randrange(1, 20) if not back else max(0, cnt[cur] - rnd.randrange(1, 5))
                prog.append(org(target))
                cnt[cur] = max(cnt[cur], target)
                # something that takes space must follow
                k = "byte" if cur == "data" else rnd.choice(["db1", "dw"]) if cur == "eeprom" else rnd.choice(["w1", "w2", "db3"])
            elif cur == "code":
                k = rnd.choice(kinds)
            elif cur == "data":
                k = rnd.choice(["byte", "byte", "label"])
            else:
                k = rnd.choice(["db1", "db2", "db3", "dbs", "dw", "dd", "dq", "byte", "label"])
            if faulty and rnd.random() < 0.05:
                k = rnd.choice(["w1", "db1", "byte"])     # possibly in the wrong segment
            prog.append(layout_item(rnd, k, labels))
            cnt[cur] += 8       # over-estimate, only used to keep .org targets ahead of the counter
        if faulty and labels and rnd.random() < 0.3:
            prog.insert(rnd.randrange(len(prog)), label(rnd.choice(labels)))    # duplicate label
        observe_labels(prog, labels)
        if orgs_well_placed(prog):
            out.append(Case(prog, tag="random-faulty" if faulty else "random"))
    return out


def check_c02(prop, tier, seed, devices):
    rnd = random.Random(seed)
    devs = C02_DEVS
    cases = gen_layout_exhaustive(3 if tier == "quick" else 4, ["", "ATmega48", "ATtiny20"])
    cases += gen_layout_random(rnd, 1500 if tier == "quick" else 40000, devs)
    return run_cases(prop, tier, seed, cases, devices, keyf=default_key,
                     rule="all sequences up to length 3 (quick) / 4 (thorough) over a 14-symbol layout alphabet x 3 device classes, "
                          "plus seeded random programs of 5-60 items over 5 devices; each with a .dw table of its labels; "
                          "distinct = distinct rendered source",
                     assumptions=["an .org that is not followed by a space-occupying item in its block is not generated (property silent)"])


CHECKS = {"C02": check_c02}


def check(prop, tier, seed):
    build_harness()
    devices = isamod.device_table()
    return CHECKS[prop](prop, tier, seed, devices)
