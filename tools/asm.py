"""Program-level checks (C02 C03 C06 C08 C09 C10 C12 C14 C15): abstract programs are
generated (bounded-exhaustive over small alphabets plus seeded random larger ones),
rendered, built by the real code, and every result is judged by TLC against
Assembler!Run (Trace_Asm)."""
import copy
import os
import itertools
import json
import random

from common import *
from prog import *
import isa as isamod


class Case:
    __slots__ = ("prog", "src", "mat", "chkline", "msg_texts", "tag", "devs", "spell")

    def __init__(self, prog, tag="", mat=True, chkline=False, msg_texts=(), spell=None, spells=None):
        self.prog = prog
        self.src = render(prog, spell=spell, spells=spells)
        self.mat, self.chkline, self.msg_texts, self.tag = mat, chkline, tuple(msg_texts), tag


def corrupt(ev):
    """Binding self-test: a copy of an event with one recorded field changed."""
    e = copy.deepcopy(ev)
    r = e["res"]
    if r["r"] == "ok":
        if r["code"]:
            r["code"][len(r["code"]) // 2] ^= 0x04
        elif r["eeprom"]:
            r["eeprom"][0] ^= 0x80
        else:
            r["ramfill"] += 1
    else:
        r["r"] = "ok"
    return e


def run_cases(prop, tier, seed, cases, devices, matcher=None, keyf=None, rule="", assumptions=(), extra_cov=None,
              exhaustive=False, module="Trace_Asm", chunk=None, mc=None, dedupe=False, extra=None):
    """Executes cases, has TLC judge them, files rejections as violations / known findings."""
    scratch = Scratch(prop)
    v = Verdict(prop, tier, seed, "model_checking")
    matcher = matcher or kf_match
    try:
        jobs = [{"k": "str", "id": i, "src": c.src, "nohex": not c.mat} for i, c in enumerate(cases)]
        res = run_jobs(jobs)
        events = []
        for i, c in enumerate(cases):
            events.append(event(c.prog, res[i], devs_for(c.prog, devices), c.mat, c.chkline, c.msg_texts))
        all_events, all_cases, all_res = events, cases, res
        if dedupe:
            # variants of one abstract program that gave the same result are the same event for TLC (line numbers aside,
            # which only messages carry): judge each distinct (program, result) once
            seen, keep = {}, []
            for i, e in enumerate(events):
                key = json.dumps([[{k: v for k, v in l.items() if k != "ln" or l["k"] in ("message", "warning", "error")} for l in e["prog"]],
                                  e["res"], e["mat"]], sort_keys=True)
                if key not in seen:
                    seen[key] = i
                    keep.append(i)
            events = [all_events[i] for i in keep]
            cases = [all_cases[i] for i in keep]
            res = {j: all_res[i] for j, i in enumerate(keep)}
        oks = [i for i, e in enumerate(events) if e["res"]["r"] == "ok"]
        errs = [i for i, e in enumerate(events) if e["res"]["r"] == "err"]
        can = [corrupt(events[i]) for i in (oks[:1] + oks[len(oks) // 2:len(oks) // 2 + 1] + errs[:1])]
        rejected, stats = validate_events(events + can, module, scratch, chunk=chunk)
        ncan = sum(1 for i in range(len(events), len(events) + len(can)) if i in rejected)
        for i in sorted(rejected):
            if i >= len(events):
                continue
            c = cases[i]
            r = res[i]
            obs = {k: r.get(k) for k in ("r", "code", "eeprom", "fs", "es", "rs", "rf", "msgs", "text") if k in r}
            if len(obs.get("code", "")) > 600:
                obs["code"] = obs["code"][:600] + "..."
            v.reject({"tag": c.tag, "source": c.src, "prog": clean(c.prog), "observed": obs, "expected": rejected[i]}, matcher)
        for ex in ([extra] if callable(extra) else (extra or [])):
            cov2, stats2 = ex(v, scratch, all_cases)
            extra_cov = dict(extra_cov or {}, **cov2)
            stats["states"] += stats2["states"]
            stats["transitions"] += stats2["transitions"]
        if keyf:
            v.summary(keyf)
        srcs = {c.src for c in all_cases}
        v.coverage.update({
            "states": stats["states"], "transitions": stats["transitions"],
            "traces_validated_against_impl": len(all_events),
            "evaluations": len(all_events), "distinct_nontrivial": len({s for s in srcs if s.strip()}),
            "distinct_program_result_pairs_judged": len(events),
            "rule": rule or "one build_str per abstract program; distinct = distinct rendered sources; non-trivial = non-empty source",
            "observed_ok": len(oks), "observed_err": len(errs),
            "observed_other": len(events) - len(oks) - len(errs),
            "rejected_events": len([i for i in rejected if i < len(events)]),
            "binding_selftest": "%d/%d corrupted events rejected" % (ncan, len(can)),
            "tags": _count(c.tag for c in all_cases),
            "tlc": stats, "exhaustive": exhaustive,
            "samples": [{"tag": cases[i].tag, "source": cases[i].src, "observed": events[i]["res"]["r"]} for i in
                        sorted(random.Random(seed).sample(range(len(cases)), min(5, len(cases))))],
        })
        if mc:
            v.coverage["model_checking_of_spec"] = mc
            v.coverage["states"] += mc.get("states", 0)
            v.coverage["transitions"] += mc.get("transitions", 0)
        if extra_cov:
            v.coverage.update(extra_cov)
        v.assumptions += list(assumptions) + [
            "TLC and the CommunityModules Json/IOUtils/Bitwise overrides",
            "renderer and recorder (tools/prog.py, harness/src/drive.rs) are mechanical and faithful",
        ]
        if ncan != len(can):
            raise ToolError("binding self-test failed: %d of %d corrupted events were rejected" % (ncan, len(can)))
        return v.finish()
    finally:
        scratch.cleanup()


def _count(it):
    c = {}
    for x in it:
        c[x] = c.get(x, 0) + 1
    return c


def ast_syms(a):
    t = a.get("t")
    if t == "sym":
        return {a["n"]}
    out = set()
    for k in ("l", "r", "e"):
        if isinstance(a.get(k), dict):
            out |= ast_syms(a[k])
    return out


def has_unevaluable_size(prog):
    """Structural signature of the known finding 'byte-org-unevaluable': a .byte or .org line whose operand
    refers to a name that is not an .equ defined on an earlier line (directly or through macro bodies)."""
    known = set()
    for l in prog:
        if l["k"] == "equ":
            known.add(l["n"])
        if l["k"] in ("byte", "org") and (ast_syms(l["e"]) - known):
            return True
    return False


def kf_match(k, case):
    kind = k.get("match", {}).get("kind")
    if kind == "byte-org-unevaluable":
        return has_unevaluable_size(case["prog"]) and case["observed"]["r"] == "ok"
    if kind == "macro-body-ends-outside-cseg":
        ends_out = set()
        name, last = None, "code"
        for l in case["prog"]:
            if l["k"] == "macro":
                name, last = l["n"], "code"
            elif l["k"] == "seg" and name:
                last = l["s"]
            elif l["k"] == "endm" and name:
                if last != "code":
                    ends_out.add(name)
                name = None
        # what the finding looks like: the lines after the call are laid out in the caller's segment -- the build succeeds
        # with them there, or fails because they are not allowed there; any other failure is not this finding
        text = case["observed"].get("text", "") if isinstance(case.get("observed"), dict) else ""
        manifest = case["observed"]["r"] == "ok" or "not allowed in" in text
        return manifest and bool(ends_out) and any(l["k"] == "call" and l["n"] in ends_out for l in case["prog"])
    if kind == "macro-messages-listed-last":
        # what the finding looks like: the build succeeds with the right images and the right messages, those of macro
        # bodies listed after all others (each group in its own order); anything else is not this finding
        obs, exp = case.get("observed"), case.get("expected")
        if not (isinstance(obs, dict) and isinstance(exp, dict) and obs.get("r") == "ok" and exp.get("ok")):
            return False
        em = exp.get("msgs") or []
        deferred = [m for m in em if m["at"] == m["ln"]] + [m for m in em if m["at"] != m["ln"]]
        om = obs.get("msgs") or []
        if deferred == em or len(om) != len(em):
            return False
        for m, o in zip(deferred, om):
            if not (o.endswith("line: %d" % m["ln"]) and (": %s in line" % m["txt"]) in o):
                return False
        for img in ("code", "eeprom"):
            if img in exp and isinstance(obs.get(img), str) and bytes(exp[img]).hex() != obs[img].lower():
                return False
        return True
    if kind == "org-zero-after-content":
        return (case["observed"]["r"] == "ok" and not case["expected"].get("ok")
                and any(l["k"] == "org" and l["e"] == {"t": "num", "v": 0} for l in case["prog"]))
    return False


def pipeline_extra(sample=1500, fixtures=False, suite=False, seed=0):
    """Hook-level validation (Trace_Pipeline) of a sample of the check's own programs, and optionally of the
    repository's fixtures, shipped part files and own test suite."""
    import pipeline as pl

    def run(v, scratch, cases):
        rnd = random.Random(seed)
        pick = cases if len(cases) <= sample else rnd.sample(cases, sample)
        jobs = [{"k": "trace", "id": i, "src": c.src} for i, c in enumerate(pick)]
        viol, cov = pl.validate_builds(jobs, scratch, "generated")
        total = {"pipeline_generated": cov}
        st = {"states": cov.get("states", 0), "transitions": cov.get("transitions", 0)}
        if fixtures:
            v2, c2 = pl.validate_builds(pl.fixture_jobs(scratch), scratch, "fixtures")
            viol += v2
            total["pipeline_fixtures_and_part_files"] = c2
            st["states"] += c2.get("states", 0); st["transitions"] += c2.get("transitions", 0)
        if suite:
            streams, info = pl.suite_streams(scratch)
            v3, c3 = pl.validate_streams(streams, [{"src": "repository test suite, stream %d" % i} for i in range(len(streams))], scratch, "suite")
            viol += v3
            total["pipeline_repository_test_suite"] = dict(c3, **info)
            st["states"] += c3.get("states", 0); st["transitions"] += c3.get("transitions", 0)
        for x in viol:
            v.reject(x, kf_match)
        return total, st
    return run


def default_key(x):
    exp = x["expected"]
    return (x["tag"], x["observed"]["r"], "expected " + ("ok" if exp.get("ok") else "err@%s" % exp.get("phase")))


# ========================================================================================
# C02 -- layout

ONE_WORD = [lambda: instr("nop"), lambda: instr("ldi", R(16), E(0x5a)), lambda: instr("mov", R(3), R(4)),
            lambda: instr("ld", R(5), IX("X", "inc"))]
TWO_WORD = [lambda: instr("jmp", E(0x1234)), lambda: instr("call", E(0x3f0001))]


def data_item(rnd, kind):
    if kind == "db1":
        return data(1, E(rnd.randrange(256)))
    if kind == "db2":
        return data(1, E(rnd.randrange(256)), E(rnd.randrange(256)))
    if kind == "db3":
        return data(1, E(1), S("ab"))
    if kind == "dbs":
        return data(1, S("x" * rnd.randrange(0, 6)))
    if kind == "dbu":
        return data(1, *rnd.choice([[S("é")], [S("é"), E(1)], [S("°C")], [E(2), S("ñandú")], [S("€")]]))
    if kind == "dw":
        return data(2, *[E(rnd.randrange(65536)) for _ in range(rnd.randrange(1, 3))])
    if kind == "dd":
        return data(4, E(rnd.randrange(1 << 31)))
    if kind == "dq":
        return data(8, E(rnd.randrange(1 << 40)))


C02_DEVS = ["", "ATmega48", "ATtiny20", "ATmega2560", "ATtiny13"]


def layout_item(rnd, kind, labels):
    """One abstract line of the layout alphabet; `labels` collects names defined."""
    if kind == "w1":
        return rnd.choice(ONE_WORD)()
    if kind == "w2":
        return rnd.choice(TWO_WORD)()
    if kind == "lds":
        return instr("lds", R(16 + rnd.randrange(16)), E(0x60 + rnd.randrange(0x40)))
    if kind == "sts":
        return instr("sts", E(0x60 + rnd.randrange(0x40)), R(16 + rnd.randrange(16)))
    if kind in ("db1", "db2", "db3", "dbs", "dbu", "dw", "dd", "dq"):
        return data_item(rnd, kind)
    if kind == "byte":
        return byte(rnd.choice([1, 2, 3, 7]))
    if kind == "label":
        n = "l%d" % len(labels)
        labels.append(n)
        return label(n)
    if kind in ("code", "data", "eeprom"):
        return seg(kind)
    raise ValueError(kind)


def observe_labels(prog, labels):
    """Appends a table of .dw <label> in the code segment so that label values are in the image."""
    if labels:
        prog.append(seg("code"))
        for n in labels:
            prog.append(data(2, E(sym(n))))


def orgs_well_placed(prog):
    """The shapes the property is silent on are not generated: an .org must be followed, within its
    segment block, by something that occupies space."""
    cur = "code"
    for i, l in enumerate(prog):
        if l["k"] == "seg":
            cur = l["s"]
        if l["k"] == "org":
            j = i + 1
            # labels and a directive that re-selects the segment already current change nothing (C12: "reached by .org")
            while j < len(prog) and (prog[j]["k"] == "blank" or (prog[j]["k"] == "seg" and prog[j]["s"] == cur)):
                j += 1
            if j >= len(prog) or prog[j]["k"] not in ("instr", "data", "byte"):
                return False
    return True


def gen_layout_exhaustive(maxlen, devs):
    """All sequences up to maxlen over the layout alphabet x device classes."""
    alpha = ["w1", "w2", "lds", "sts", "db1", "db2", "db3", "dbu", "dw", "dq", "byte", "label", "org+", "code", "data", "eeprom"]
    rnd = random.Random(1)
    out = []
    for n in range(1, maxlen + 1):
        for seq in itertools.product(alpha, repeat=n):
            # prune sequences that cannot exercise anything new: two segment switches in a row, leading .cseg
            if any(a in ("code", "data", "eeprom") and b in ("code", "data", "eeprom") for a, b in zip(seq, seq[1:])):
                continue
            if seq[-1] in ("org+", "code", "data", "eeprom"):
                continue
            for dev in devs:
                if dev != devs[0] and "lds" not in seq and "sts" not in seq and "data" not in seq:
                    continue        # the device only matters for lds length and RAM start
                labels, prog, cur, cnt = [], [], "code", {"code": 0, "data": 0, "eeprom": 0}
                if dev:
                    prog.append(line("device", n=dev))
                for k in seq:
                    if k == "org+":
                        # forward by 3 units from a conservative upper bound of the counter
                        prog.append(org(cnt[cur] + 3 + (0x100 if cur == "data" else 0)))
                        cnt[cur] += 3
                    else:
                        prog.append(layout_item(rnd, k, labels))
                        if k in ("code", "data", "eeprom"):
                            cur = k
                        else:
                            cnt[cur] += 8
                observe_labels(prog, labels)
                if orgs_well_placed(prog):
                    out.append(Case(prog, tag="exh%d" % n))
    return out


def gen_layout_random(rnd, n, devs):
    out = []
    kinds = ["w1", "w1", "w2", "lds", "sts", "db1", "db2", "db3", "dbs", "dbu", "dw", "dd", "dq", "label", "label"]
    for _ in range(n):
        dev = rnd.choice(devs)
        prog, labels = [], []
        if dev:
            prog.append(line("device", n=dev))
        cur = "code"
        cnt = {"code": 0, "data": 0x100 if dev in ("ATmega48",) else 0x200 if dev == "ATmega2560" else 0x40 if dev == "ATtiny20" else 0x60, "eeprom": 0}
        faulty = rnd.random() < 0.12
        for _ in range(rnd.randrange(5, 60)):
            x = rnd.random()
            if x < 0.12:
                cur = rnd.choice(["code", "data", "eeprom"])
                prog.append(seg(cur))
                continue
            if x < 0.20:
                back = faulty and rnd.random() < 0.3
                target = cnt[cur] + rnd.randrange(1, 20) if not back else max(0, cnt[cur] - rnd.randrange(1, 5))
                prog.append(org(target))
                if rnd.random() < 0.15:
                    prog.append(seg(cur))           # re-selecting the current segment changes nothing
                cnt[cur] = max(cnt[cur], target)
                # something that takes space must follow
                k = "byte" if cur == "data" else rnd.choice(["db1", "dw"]) if cur == "eeprom" else rnd.choice(["w1", "w2", "db3"])
            elif cur == "code":
                k = rnd.choice(kinds)
            elif cur == "data":
                k = rnd.choice(["byte", "byte", "label"])
            else:
                k = rnd.choice(["db1", "db2", "db3", "dbs", "dbu", "dw", "dd", "dq", "byte", "label"])
            if faulty and rnd.random() < 0.05:
                k = rnd.choice(["w1", "db1", "byte"])     # possibly in the wrong segment
            prog.append(layout_item(rnd, k, labels))
            cnt[cur] += 8       # over-estimate, only used to keep .org targets ahead of the counter
        if faulty and labels and rnd.random() < 0.3:
            prog.insert(rnd.randrange(len(prog)), label(rnd.choice(labels)))    # duplicate label
        observe_labels(prog, labels)
        if orgs_well_placed(prog):
            out.append(Case(prog, tag="random-faulty" if faulty else "random"))
    return out


def mc_layout(tier):
    sc = Scratch("C02-mc")
    try:
        mc = model_check("MC_Layout", sc, cfg="MC_Layout" if tier == "quick" else "MC_Layout_thorough", workers=8, xmx="12g", coverage=False, timeout=3000)
        mc["theorems"] = ("for every program of up to %d items over {one-/two-word instruction, .db 1/2/3, .dw, .byte, label, forward .org, .cseg/.dseg/.eseg} "
                          "that builds: every fragment sits in the image at the address layout assigned (LandsWhereAssigned), no byte is written twice "
                          "(NoOverlap), uncovered bytes are zero (GapsAreZero), the image ends at the last fragment, a label equals the address of the "
                          "item following it (LabelAtNextItem), the item after .org N starts at N (OrgHonoured)" % (4 if tier == "quick" else 5))
        return mc
    finally:
        sc.cleanup()


def check_c02(prop, tier, seed, devices):
    rnd = random.Random(seed)
    mc = mc_layout(tier)
    devs = C02_DEVS
    cases = gen_layout_exhaustive(3 if tier == "quick" else 4, ["", "ATmega48", "ATtiny20"])
    cases += gen_layout_random(rnd, 1500 if tier == "quick" else 40000, devs)
    # sizes and origins written as expressions: over literals and earlier .equ (honoured), and over names that
    # cannot be evaluated when the directive is read (known finding 'byte-org-unevaluable')
    for e, tag in ((binop("+", lit(1), lit(1)), "size-expr"), (sym("k1"), "size-expr"), (binop("*", sym("k1"), lit(2)), "size-expr"),
                   (sym("v1"), "size-unevaluable"), (sym("late"), "size-unevaluable"), (binop("+", sym("l0"), lit(4)), "size-unevaluable")):
        for segname in ("data", "eeprom"):
            prog = [equ("k1", 3), setv("v1", 2), label("l0"), seg(segname), byte(copy.deepcopy(e), lab="a"), byte(1, lab="b"), equ("late", 2)]
            observe_labels(prog, ["a", "b"])
            cases.append(Case(prog, tag=tag))
        prog = [equ("k1", 3), setv("v1", 2), instr("nop", lab="l0"), org(binop("+", copy.deepcopy(e), lit(4))), instr("ret", lab="a"), equ("late", 2)]
        observe_labels(prog, ["a"])
        cases.append(Case(prog, tag=tag.replace("size", "org")))
    # layout through macro expansion: bodies that begin with / contain .org, switch segments, define labels used outside
    mb = {n: (k, b) for n, k, b in macro_bodies()}
    for name, args in (("vector", [E(3)]), ("vector", [E(0x20)]), ("vectorlit", [R(17)]), ("midorg", [E(5)]), ("eefirst", [E(9)]), ("ramfirst", [E(4)]),
                       ("ramvar", [E(2)]), ("eevar", [E(7)]), ("noargs", []), ("incr", [R(20)]), ("counted", []), ("cond", [E(5)])):
        kinds_, body = mb[name]
        pres = [[], [instr("nop")], [instr("nop"), instr("jmp", E(0))], [seg("eeprom"), data(1, E(1)), seg("code"), instr("nop")]]
        if body[0]["k"] not in ("org", "seg"):
            # '.org N' whose next item comes out of a macro (a vector table written with a macro)
            pres += [[org(0x40)], [instr("nop"), org(0x33)], [org(0x12), label("entry")]]
        for pre in pres:
            prog = [line("macro", n=name)] + copy.deepcopy(body) + [line("endm")] + copy.deepcopy(pre) + [call(name, *copy.deepcopy(args)), instr("ret", lab="behind"),
                                                                                                    seg("eeprom"), data(1, E(0x77), lab="eebehind")]
            observe_labels(prog, ["behind", "eebehind"])
            cases.append(Case(prog, tag="macro-layout"))
    # exact origins: at the counter (legal), below it and back to zero after content (errors)
    for k in (1, 2, 5):
        for target, tag in ((k, "org-at-counter"), (k - 1, "org-below-counter"), (0, "org-zero-after-content"), (k + 1, "org-forward")):
            for segname in ("code", "eeprom", "data"):
                unit = instr("nop") if segname == "code" else data(1, E(7)) if segname == "eeprom" else byte(1)
                base = 0x60 if segname == "data" else 0
                prog = [seg(segname)] + [copy.deepcopy(unit) for _ in range(k)] + [org(base + target), copy.deepcopy(unit)]
                prog[-1]["lab"] = "here"
                observe_labels(prog, ["here"])
                cases.append(Case(prog, tag=tag))
                if tag != "org-zero-after-content":
                    prog = [seg(segname)] + [copy.deepcopy(unit) for _ in range(k)] + [org(base + target + 0x10), seg(segname), copy.deepcopy(unit)]
                    prog[-1]["lab"] = "here"
                    observe_labels(prog, ["here"])
                    cases.append(Case(prog, tag="org-then-same-segment"))
    # an origin set in one address space right before a switch to another, nothing being placed at that origin later on:
    # the other space is not moved by it
    # (an origin in the data segment counts as RAM usage in the specification whether or not something is placed there: not generated)
    # (nor an origin in the code segment: the table that shows the label values is placed there)
    for a, b in (("eeprom", "code"), ("eeprom", "data")):
        for n in (0x100, 8, 0x61):
            unit = lambda sg: instr("nop") if sg == "code" else data(1, E(7)) if sg == "eeprom" else byte(1)
            prog = [seg(a), org(n), seg(b), dict(unit(b), lab="first"), dict(unit(b), lab="second")]
            observe_labels(prog, ["first", "second"])
            cases.append(Case(prog, tag="org-then-other-segment"))
    # a macro that switches segment and sets an origin there before its first item, called from another segment
    for segname, base in (("data", 0x90), ("eeprom", 0x20)):
        body = [seg(segname), org(arg(0)), byte(arg(1), lab="") if segname == "data" else data(1, ARG(1)), seg("code")]
        for pre in ([], [instr("nop")], [org(0x30), instr("nop")]):
            prog = [line("macro", n="placed")] + copy.deepcopy(body) + [line("endm")] + copy.deepcopy(pre) + \
                   [call("placed", E(base), E(2)), instr("ret", lab="behind"), seg(segname), dict(byte(1) if segname == "data" else data(1, E(9)), lab="after")]
            observe_labels(prog, ["behind", "after"])
            cases.append(Case(prog, tag="macro-layout"))
    # every instruction occupies what the layout gave it: a relative jump whose target is out of reach is refused, it does not turn into
    # a longer instruction that moves what follows away from its labels (with and without a device that has jmp/call)
    for mn in ("rjmp", "rcall"):
        for gap in (0x7ff, 0x800, 0x801, 0x900, 0x1400):
            for dev in ("", "ATmega16", "ATmega2560", "ATmega8"):
                head = [line("device", n=dev)] if dev else []
                prog = head + [instr(mn, E(sym("far"))), instr("nop", lab="a1"), instr("nop", lab="a2"), data(2, E(sym("a1")), E(sym("a2")), lab="tab"),
                               org(gap + 1), instr("ret", lab="far")]
                observe_labels(prog, ["a1", "a2", "tab", "far"])
                cases.append(Case(prog, tag="far-relative"))
                prog = head + [instr("ret", lab="far"), org(gap + 1), instr(mn, E(sym("far"))), instr("nop", lab="b1"), data(2, E(sym("b1")), lab="tab")]
                observe_labels(prog, ["b1", "tab"])
                cases.append(Case(prog, tag="far-relative"))
    return run_cases(prop, tier, seed, cases, devices, keyf=default_key, mc=mc,
                     extra=[pipeline_extra(sample=2500 if tier == "quick" else 20000, fixtures=True, suite=True, seed=seed)],
                     rule="all sequences up to length 3 (quick) / 4 (thorough) over a 16-symbol layout alphabet x 3 device classes, "
                          "plus seeded random programs of 5-60 items over 5 devices; each with a .dw table of its labels; "
                          "distinct = distinct rendered source",
                     assumptions=["an .org that is not followed by a space-occupying item in its block is not generated (property silent)"])


CHECKS = {"C02": check_c02}


def check(prop, tier, seed):
    build_harness()
    devices = isamod.device_table()
    return CHECKS[prop](prop, tier, seed, devices)


# ========================================================================================
# C03 -- relative branches and jumps

BR_NAMES = ["brcs", "brlo", "breq", "brmi", "brvs", "brlt", "brhs", "brts", "brie",
            "brcc", "brsh", "brne", "brpl", "brvc", "brge", "brhc", "brtc", "brid"]
BR_KINDS = [(n, None) for n in BR_NAMES] + [("brbs", s) for s in range(8)] + [("brbc", s) for s in range(8)]
JMP_KINDS = [("rjmp", None), ("rcall", None)]


def filler(rnd, words, style, base):
    """Lines occupying exactly `words` words of flash starting at word address `base`
    (the generator knows item sizes only to shape distances; it never judges)."""
    out = []
    left = words
    if style == "org" and words >= 2:
        out.append(instr("nop"))
        out.append(org(base + words - 1))
        out.append(instr("nop"))
        return out
    while left > 0:
        if left > 120:
            # long stretches are bridged with 200-byte strings (100 words) so that programs stay short
            out.append(data(1, S("q" * 200)))
            left -= 100
            continue
        s = style if style != "mix" else rnd.choice(["nop", "jmp", "db", "dw", "dbs", "dbu", "dd", "dq"])
        if s == "jmp" and left >= 2:
            out.append(instr("jmp", E(0)))
            left -= 2
        elif s == "db":
            out.append(data(1, E(left % 256)))          # one byte, padded to a word
            left -= 1
        elif s == "dbs" and left >= 2:
            out.append(data(1, S("abc")))               # three bytes, padded to two words
            left -= 2
        elif s == "dbu" and left >= 3:
            out.append(data(1, S("déjà")))              # four characters, six bytes, three words
            left -= 3
        elif s == "dbu" and left >= 2:
            out.append(data(1, S("°C")))                # two characters, three bytes, two words
            left -= 2
        elif s == "dbu":
            out.append(data(1, S("é")))                 # one character, two bytes, one word
            left -= 1
        elif s == "dw":
            out.append(data(2, E(0xbeef)))
            left -= 1
        elif s == "dq" and left >= 4:
            out.append(data(8, E(0x1122334455667788)))  # four words
            left -= 4
        elif s in ("dd", "dq") and left >= 2:
            out.append(data(4, E(0x12345678)))          # two words
            left -= 2
        else:
            out.append(instr("nop"))
            left -= 1
    return out


def pc_target(naming, off):
    """pc + off written in several ways: a chain of + and - associates to the left."""
    pc = sym("pc")
    if naming == "pcsub":       # pc - 3 - b
        return binop("-", binop("-", pc, lit(3)), lit(-off - 3))
    if naming == "pcmix":       # pc - 5 + b
        return binop("+", binop("-", pc, lit(5)), lit(off + 5))
    if naming == "pcpar":       # pc - (a - b)
        return binop("-", pc, par(binop("-", lit(9), lit(off + 9))))
    return binop("+", pc, lit(off)) if off >= 0 else binop("-", pc, lit(-off))


def branch_case(rnd, kind, d, style, naming, prefix):
    mn, s = kind
    pre = [instr("nop") for _ in range(prefix)]
    ops_pre = [E(s)] if s is not None else []
    if naming.startswith("pc") and naming != "pc":
        tgt = E(pc_target(naming, 1 + d))
        if d >= 0:
            prog = pre + [instr(mn, *(ops_pre + [tgt]))] + filler(rnd, d, style, prefix + 1) + [label("target"), instr("ret")]
        else:
            prog = pre + [label("target")] + filler(rnd, -d - 1, style, prefix) + [instr(mn, *(ops_pre + [tgt])), instr("ret")]
        return Case(prog, tag="%s d=%s" % ("br" if mn.startswith("br") else "rj", "in" if (-64 <= d <= 63 if mn.startswith("br") else -2048 <= d <= 2047) else "out"))
    if d >= 0:      # forward: branch at A=prefix, target at A+1+d
        tgt = E(sym("target")) if naming == "label" else E(binop("+", sym("pc"), lit(1 + d)))
        prog = pre + [instr(mn, *(ops_pre + [tgt]))] + filler(rnd, d, style, prefix + 1)
        prog += [label("target"), instr("ret")]
    else:           # backward: target at T=prefix, branch at T+g, g = -d-1
        g = -d - 1
        tgt = E(sym("target")) if naming == "label" else E(binop("-", sym("pc"), lit(g)))
        prog = pre + [label("target")] + filler(rnd, g, style, prefix) + [instr(mn, *(ops_pre + [tgt])), instr("ret")]
    return Case(prog, tag="%s d=%s" % ("br" if mn.startswith("br") else "rj", "in" if (-64 <= d <= 63 if mn.startswith("br") else -2048 <= d <= 2047) else "out"))


def check_c03(prop, tier, seed, devices):
    rnd = random.Random(seed)
    cases = []
    styles = ["nop", "jmp", "db", "dw", "dbs", "dbu", "dd", "dq", "org", "mix"]
    br_bound = [-70, -66, -65, -64, -63, -62, -2, -1, 0, 1, 2, 61, 62, 63, 64, 65, 66, 70]
    rj_bound = [-2056, -2050, -2049, -2048, -2047, -2046, -1, 0, 1, 2046, 2047, 2048, 2049, 2056]
    # every kind at every boundary distance, fillers rotated (thorough: all fillers)
    for ki, kind in enumerate(BR_KINDS):
        for di, d in enumerate(br_bound):
            sts = styles if tier == "thorough" else [styles[(ki + di) % len(styles)], styles[(ki + 2 * di + 3) % len(styles)]]
            for st in sts:
                for naming in ("label", "pc", ("pcsub", "pcmix", "pcpar")[(ki + di) % 3]):
                    cases.append(branch_case(rnd, kind, d, st, naming, prefix=(ki + di) % 5))
    # every distance in -70..70, kinds rotated (thorough: all kinds)
    for d in range(-70, 71):
        kinds = BR_KINDS if tier == "thorough" else [BR_KINDS[(d + 70 + j * 7) % len(BR_KINDS)] for j in range(3)]
        for j, kind in enumerate(kinds):
            cases.append(branch_case(rnd, kind, d, styles[(d + j) % len(styles)], "label" if (d + j) % 2 else "pc", prefix=j))
    for ki, kind in enumerate(JMP_KINDS):
        ds = set(rj_bound) | {rnd.randrange(-2048, 2048) for _ in range(20 if tier == "quick" else 300)}
        for di, d in enumerate(sorted(ds)):
            sts = styles if tier == "thorough" and d in rj_bound else [styles[(ki + di) % len(styles)]]
            for st in sts:
                for naming in ("label", "pc"):
                    cases.append(branch_case(rnd, kind, d, st, naming, prefix=di % 3))
    # far targets, named by pc expression so that nothing has to be placed there: distances that come back into
    # range when truncated to 8, 12, 16 or 32 bits
    far = set()
    for base in (128, 256, 4096, 8192, 32768, 65536, 1 << 22, 1 << 31, 1 << 32):
        for k in (-66, -65, -64, -63, -1, 0, 1, 2, 62, 63, 64, 65):
            far |= {base + k, -base + k}
    far |= {127, 191, 192, 200, 319, 320, -129, -193, -320, 2048 + 4096, -2049 - 4096, 65538, -65538}
    for ki, kind in enumerate(BR_KINDS + JMP_KINDS):
        mn, sbit = kind
        pick = sorted(far) if (tier == "thorough" or mn in ("rjmp", "rcall", "brne", "brbs")) else sorted(far)[ki % 7::7]
        for d in pick:
            tgt = binop("+", sym("pc"), lit(1 + d)) if d >= -1 else binop("-", sym("pc"), lit(-d - 1))
            ops_ = ([E(sbit)] if sbit is not None else []) + [E(tgt)]
            cases.append(Case([instr("nop"), instr("nop"), instr(mn, *ops_), instr("ret")], tag="far"))
    # under devices: one-word lds/sts of the reduced core (and two-word ones elsewhere) between instruction and target
    for devname in ("ATtiny20", "ATmega48", "ATtiny13"):
        for kind in (("brne", None), ("rjmp", None), ("rcall", None), ("brbs", 3)):
            for d in (-5, -2, -1, 0, 1, 2, 3, 7):
                for which in ("lds", "sts", "both"):
                    mn, sbit = kind
                    gap = []
                    if which in ("lds", "both"):
                        gap.append(instr("lds", R(17), E(0x50)))
                    if which in ("sts", "both"):
                        gap.append(instr("sts", E(0x51), R(18)))
                    ops_pre = [E(sbit)] if sbit is not None else []
                    if d >= 0:
                        prog = [line("device", n=devname), instr(mn, *(ops_pre + [E(sym("target"))]))] + gap + [instr("nop") for _ in range(d)] + [label("target"), instr("ret")]
                    else:
                        prog = [line("device", n=devname), label("target")] + gap + [instr("nop") for _ in range(-d)] + [instr(mn, *(ops_pre + [E(sym("target"))])), instr("ret")]
                    cases.append(Case(prog, tag="device"))
    for kind in (("rjmp", None), ("rcall", None), ("brne", None), ("brbs", 1)):
        mn, sbit = kind
        ops_pre = [E(sbit)] if sbit is not None else []
        pc = sym("pc")
        for tgt in (binop("-", pc, par(binop("-", lit(4), lit(1)))), binop("-", sym("here"), par(binop("+", lit(2), lit(1)))), binop("+", pc, binop("/", lit(8), par(binop("*", lit(2), lit(2))))),
                    binop("-", binop("-", pc, lit(2)), lit(1)), binop("+", pc, par(binop("-", lit(70), lit(10)))), binop("-", pc, par(binop("-", lit(80), lit(13)))),
                    binop("-", pc, par(binop("-", lit(3), lit(2)))), binop("+", binop("-", pc, lit(60)), par(binop("-", lit(3), lit(8))))):
            body = [instr(mn, *(ops_pre + [ARG(0)]))]
            prog = [line("macro", n="go")] + body + [line("endm")] + [instr("nop") for _ in range(6)] + [instr("nop", lab="here"), call("go", E(copy.deepcopy(tgt))), instr("ret")]
            cases.append(Case(prog, tag="macro-target"))
    # pc in the first item of a block: after an origin, at the start of the program, after a block of another segment
    for kind in (("rjmp", None), ("rcall", None), ("brne", None), ("brbs", 4)):
        mn, sbit = kind
        ops_pre = [E(sbit)] if sbit is not None else []
        for off in (0, 1, -1, 2, -16):
            tgt = E(pc_target("pc", off))
            cases.append(Case([instr("nop"), org(0x10), instr(mn, *(ops_pre + [copy.deepcopy(tgt)])), instr("ret")], tag="pc-first-item"))
            cases.append(Case([org(0x20), instr(mn, *(ops_pre + [copy.deepcopy(tgt)])), instr("ret")], tag="pc-first-item"))
            cases.append(Case([instr("nop"), instr("nop"), seg("eeprom"), data(1, E(1), E(2), E(3)), seg("code"), instr(mn, *(ops_pre + [copy.deepcopy(tgt)])), instr("ret")], tag="pc-first-item"))
            cases.append(Case([instr("nop"), seg("data"), setv("q", 1), byte(2), seg("code"), instr(mn, *(ops_pre + [copy.deepcopy(tgt)])), instr("ret")], tag="pc-first-item"))
        # a macro that declares a variable in another segment and comes back, called between instruction and target
        for d in (1, 5, 62, 63):
            var = [line("macro", n="defvar"), seg("data"), byte(arg(0)), seg("code"), line("endm")]
            prog = var + [org(0x10), instr("nop"), instr(mn, *(ops_pre + [E(sym("target"))]))] + [instr("nop") for _ in range(d - 1)] + [call("defvar", E(2))] + [instr("nop", lab="target"), instr("ret")]
            cases.append(Case(prog, tag="macro-between"))
    for gap in (2, 4, 0x20):
        for kind in (("rjmp", None), ("brne", None), ("rcall", None)):
            mn, sbit = kind
            vec = [line("macro", n="vector"), org(arg(0)), instr("rjmp", ARG(1)), line("endm")]
            prog = vec + [instr(mn, E(sym("main")))] + [call("vector", E(gap * (i + 1)), E(sym("isr"))) for i in range(3)] + [instr("reti", lab="isr"), instr(mn, E(sym("isr")), lab="main"), instr("ret")]
            cases.append(Case(prog, tag="macro-vector"))
    for cs in ("upper", "mixed"):
        for kind in (("rjmp", None), ("rcall", None), ("brne", None), ("brbs", 2), ("brbc", 5)):
            mn, sbit = kind
            ops_pre = [E(sbit)] if sbit is not None else []
            for off in (-3, -1, 0, 2, 63, 64, -64, -65):
                prog = [instr("nop") for _ in range(4)] + [instr(mn, *(ops_pre + [E(pc_target("pc", off))])), instr("ret")]
                cases.append(Case(prog, tag="pc-case", spell=Spell(case=cs)))
    # out-of-range distances under devices whose flash is as small as the reach of rjmp: never wrapped around
    for devname in ("ATmega8", "ATtiny85", "ATtiny2313", "ATtiny13", "ATmega48"):
        for mn in ("rjmp", "rcall"):
            for off in (2047, 2048, 2049, 2500, 4095, 4096, 4097, -2047, -2048, -2049, -2500, -4096, 1023, 1024, 1025, -1024, -1025):
                tgt = binop("+", sym("pc"), lit(off)) if off >= 0 else binop("-", sym("pc"), lit(-off))
                cases.append(Case([line("device", n=devname), instr("nop"), instr(mn, E(tgt)), instr("ret")], tag="far-device"))
            for a in (0x7ff, 0x800, 0x801, 0xfff, 0x3ff, 0x400):
                cases.append(Case([line("device", n=devname), instr(mn, E(a)), instr("ret")], tag="far-device"))
    # the distance comes from a .set variable that is (re)assigned while another segment is current
    for kind in (("brne", None), ("rjmp", None), ("rcall", None), ("brbc", 2)):
        mn, sbit = kind
        ops_pre = [E(sbit)] if sbit is not None else []
        for segname in ("data", "eeprom", "code"):
            for off in (2, 5, 64, 65, 100, 2048, 2049):
                prog = [setv("stride", 1), seg(segname), setv("stride", off), seg("code"), instr(mn, *(ops_pre + [E(binop("+", sym("pc"), sym("stride")))]))] + \
                       filler(rnd, min(off, 6), "nop", 1) + [instr("ret")]
                cases.append(Case(prog, tag="set-in-segment"))
                prog = [instr("nop"), seg(segname), setv("handler", off), seg("code"), instr(mn, *(ops_pre + [E(sym("handler"))])), instr("ret")]
                cases.append(Case(prog, tag="set-in-segment"))
    # the target named through a variable assigned from the location counter, which had another value before (names in
    # every letter case, the use in another case than the assignments): the value in force is the one assigned last
    for ki, kind in enumerate(BR_KINDS[::5] + [("rjmp", None), ("rcall", None)]):
        mn, s_ = kind
        bounds = [-66, -65, -64, -63, -2, -1] if mn.startswith("br") else [-2050, -2049, -2048, -2047, -5, -1]
        for di, d in enumerate(bounds):
            for c1 in ("lower", "upper", "mixed"):
                for c2 in ("lower", "mixed"):
                    g = -d - 1
                    ops_pre = [E(s_)] if s_ is not None else []
                    prog = [setv("mark", sym("pc")), instr("nop"), instr("nop"), setv("mark", sym("pc"))] + filler(rnd, g, "nop" if g > 200 else styles[(ki + di) % len(styles)], 2) + \
                           [instr(mn, *(ops_pre + [E(sym("mark"))])), instr("ret")]
                    spells = [Spell(case=c1), Spell(), Spell(), Spell(case=c1)] + [Spell() for _ in range(len(prog) - 6)] + [Spell(case=c2), Spell()]
                    cases.append(Case(prog, tag="%s d=%s" % ("br" if mn.startswith("br") else "rj", "in" if (-64 <= d <= 63 if mn.startswith("br") else -2048 <= d <= 2047) else "out"),
                                      spells=spells))
    return run_cases(prop, tier, seed, cases, devices, keyf=default_key, extra=[pipeline_extra(sample=1200, seed=seed)],
                     rule="<prefix, branch/jump, filler, target> forward and backward for 34 branch forms + rjmp/rcall; every boundary "
                          "distance for every form, every distance -70..70 with forms rotated; fillers: nop, jmp, odd .db, .dw, .dd, .dq, 3-byte and non-ASCII .db, "
                          ".org gap, mixed; target named by label and by pc expression; plus far targets (around +-2^7, 2^8, 2^12, 2^13, 2^15, 2^16, 2^22, 2^31, "
                          "2^32) named by pc expression")


CHECKS["C03"] = check_c03


# ========================================================================================
# C06 -- data directives

STRINGS = ["", "a", "ab", "abc", "héllo", "a;b", "x,y", "//z", "ß", "tab\there"]


def width_values(w):
    top = 1 << (8 * w)
    half = top >> 1
    vals = [0, 1, 2, 255, 256, half - 1, half, top - 1, -1, -2, -half, -half + 1]
    if w < 8:
        vals += [top, top + 1, -half - 1, -top, (1 << 62) + 3, -(1 << 62)]
    else:
        vals = [0, 1, 255, (1 << 63) - 1, (1 << 62), -1, -(1 << 63) + 1, -(1 << 62)]
    return vals


def check_c06(prop, tier, seed, devices):
    rnd = random.Random(seed)
    cases = []
    for segname in ("code", "eeprom", "data"):
        for w in (1, 2, 4, 8):
            vals = width_values(w)
            elems_pool = [E(lit(v)) for v in vals] + [E(sym("k1")), E(sym("here"))]
            if segname != "data":
                elems_pool += [E(binop("&", sym("pc"), lit(0x7f))), E(binop("+", sym("pc"), lit(1)))]     # the location counter, also in data operands
            if w == 1 or segname == "code":
                elems_pool += [S(s) for s in STRINGS]
            # single elements, pairs, and a second data line after it (exposes per-line padding)
            lists = [[e] for e in elems_pool]
            lists += [[a, b] for a in elems_pool[:6] + elems_pool[-4:] for b in elems_pool[:4] + elems_pool[-3:]]
            lists += [[]]
            n3 = 150 if tier == "quick" else 3000
            half, top = 1 << (8 * w - 1), 1 << (8 * w)
            good = [E(lit(v)) for v in vals if (w == 8 or -half <= v < top)] + [E(sym("k1")), E(sym("here"))]
            if w == 1:
                good += [S(s) for s in STRINGS]
            for _ in range(n3):
                # mostly lists that fit (so that long correct outputs are compared), some with one misfit
                els = [rnd.choice(good) for _ in range(rnd.randrange(3, 6))]
                if rnd.random() < 0.2:
                    els[rnd.randrange(len(els))] = rnd.choice(elems_pool)
                lists.append(els)
            # tables of bare literals in every radix (a leading zero means octal), with and without a comment behind them
            for radix in ("oct", "0x", "$", "0b", "dec"):
                for vs in ([8, 1], [0o377 if w == 1 else 0o1777, 0], [7, 8, 9, 64], [0, 0o10, 0o100], [63]):
                    for cm in (False, True):
                        prog = [seg(segname), data(w, *[E(lit(v_)) for v_ in vs])] + ([line("blank", cmt="table")] if cm else []) + [data(w, E(lit(9)))]
                        cases.append(Case(prog, tag="%s.radix" % segname, spells=[Spell(radix=radix)] * len(prog)))
            for els in lists:
                prog = [equ("k1", 0x41), seg(segname), label("here"), data(w, *copy.deepcopy(els))]
                second = rnd.choice([None, data(1, E(0x7e)), data(2, E(0x1234)), byte(3) if segname != "code" else instr("nop")])
                if second:
                    prog.append(second)
                cases.append(Case(prog, tag="%s.w%d" % (segname, w)))
    # .byte in eeprom / code / data
    for n in (0, 1, 2, 5):
        for segname in ("eeprom", "code", "data"):
            cases.append(Case([seg(segname), data(1, E(1)) if segname == "eeprom" else line("blank"), byte(n), data(1, E(2)) if segname == "eeprom" else line("blank")], tag="byte." + segname))
    for w in (1, 2, 4, 8):
        for segname in ("eeprom", "code"):
            for els in ([ARG(0)], [ARG(0), E(2), E(3)], [E(1), ARG(0)], [S("ab"), ARG(0)] if w == 1 else [ARG(0), ARG(0)]):
                body = ([seg(segname)] if segname != "code" else []) + [data(w, *copy.deepcopy(els))] + ([seg("code")] if segname != "code" else []) + [instr("nop")]
                for pre in ([], [instr("nop")], [seg("eeprom"), data(1, E(0x11)), seg("code")]):
                    prog = [line("macro", n="emit")] + copy.deepcopy(body) + [line("endm")] + copy.deepcopy(pre) + [call("emit", E(0x41)), call("emit", E(lit(-2)))]
                    cases.append(Case(prog, tag="macro-data"))
    # reservations and data in EEPROM blocks that do not start at address 0: after .org, and in a block resumed
    # after another segment
    for n in (0, 1, 2, 5):
        for k in (1, 4, 9):
            for w in (1, 2, 4):
                cases.append(Case([seg("eeprom"), org(k), byte(n), data(w, E(0x5a), lab="after")], tag="byte.eeprom-org"))
                cases.append(Case([seg("eeprom"), data(1, *[E(i) for i in range(k)]), seg("code"), instr("nop"), seg("eeprom"),
                                   byte(n), data(w, E(0x5a)), seg("data"), byte(1), seg("eeprom"), data(1, E(1)), byte(n), data(1, E(2))],
                                  tag="byte.eeprom-resumed"))
                cases.append(Case([seg("eeprom"), data(w, E(1)), org(k + 8), data(w, E(2)), byte(n), org(k + 20), byte(n), data(1, S("z"))],
                                  tag="byte.eeprom-org"))
    # literals that no 64-bit value can hold are errors in every radix and width -- never a wrapped value
    over = ["0x8000000000000000", "0xFFFFFFFFFFFFFFFF", "$FFFFFFFFFFFF8000", "$ffffffff80000000", "0x10000000000000000", "0xFFFFFFFFFFFFFF80",
            "9223372036854775808", "18446744073709551615", "18446744073709551616", "99999999999999999999999",
            "0b1" + "0" * 63, "0b" + "1" * 64, "0b1" + "0" * 64, "01000000000000000000000", "01777777777777777777777", "02000000000000000000000"]
    for lit_ in over:
        for w in (1, 2, 4, 8):
            for segname in ("code", "eeprom"):
                head = [seg(segname)] if segname != "code" else []
                for form in ("%s", "1, %s", "-%s", "low(%s)", "%s & 255"):
                    cases.append(Case(head + [data(1, E(7)), line("garbage", text=DATADIR[w] + " " + form % lit_)], tag="literal-overflow"))
    # strings are text, whatever they contain: long runs of operator characters, parentheses, quotes of the other kind
    for text in ("+-*/" * 150, "(" * 600, ")" * 600, "<<>>&&||" * 80, "-" * 1000, "!~" * 300, "a+b" * 250, "'" * 300, "/*" * 200 + "*/", ";" * 700, "," * 600):
        for segname in ("code", "eeprom"):
            head = [seg(segname)] if segname != "code" else []
            cases.append(Case(head + [data(1, S(text)), data(1, E(0x5a))], tag="long-string"))
            cases.append(Case(head + [data(1, E(1), S(text), E(binop("+", lit(1), lit(2))), S(text[:7]))], tag="long-string"))
    return run_cases(prop, tier, seed, cases, devices, keyf=default_key, extra=[pipeline_extra(sample=1200, seed=seed)],
                     rule="literals beyond 64 bits in every radix (errors); strings of 600-1000 operator / parenthesis / comment characters; "
                          ".db/.dw/.dd/.dq with element lists of length 0..5 over boundary values of each width (both ends, signed and unsigned), "
                          ".equ symbols, labels and ten strings (empty, non-ASCII, containing ; , //), in code, eeprom and data segments, "
                          "followed by a second item; .byte n in each segment, in EEPROM blocks after .org and in resumed EEPROM blocks")


CHECKS["C06"] = check_c06


# ========================================================================================
# C10 -- symbols

CASES3 = ["lower", "upper", "mixed"]


def sym_program(rnd, n):
    """Random program over disjoint name pools: labels, .equ, .set, .def aliases.  Mostly valid:
    a use refers (85%) to a name that is bound at that point -- labels and .equ anywhere in the
    program, .set after an assignment, aliases between .def and .undef."""
    labels, equs, sets, aliases = ["lab1", "lab2"], ["k1", "k2", "k3"], ["v1", "v2"], ["tmp", "cnt"]
    use_lab = [l for l in labels if rnd.random() < 0.7]
    use_equ = [e for e in equs if rnd.random() < 0.7]
    pending = [("label", l) for l in use_lab] + [("equ", e) for e in use_equ]
    rnd.shuffle(pending)
    alias_on, set_on = {}, set()
    prog = []
    segs = rnd.random() < 0.5
    cur = ["code"]
    steps = max(n, len(pending))
    for step in range(steps):
        if pending and rnd.random() < len(pending) / float(steps - step):
            kind, nme = pending.pop()
            if kind == "label":
                # a label stands alone, before an instruction, or before a directive
                if cur[0] == "code":
                    prog.append(rnd.choice([label(nme), instr("nop", lab=nme), data(2, E(rnd.randrange(9)), lab=nme), data(1, S("ab"), lab=nme)]))
                elif cur[0] == "data":
                    prog.append(rnd.choice([label(nme), byte(1, lab=nme)]))
                else:
                    prog.append(rnd.choice([label(nme), data(1, E(7), lab=nme), byte(2, lab=nme)]))
            else:
                others = [x for x in use_equ + use_lab if x != nme]
                e = binop("+", sym(rnd.choice(others)), lit(1)) if others and rnd.random() < 0.4 else lit(rnd.randrange(1, 60))
                prog.append(equ(nme, e))
            continue
        glob = use_equ + use_lab
        bound = glob + sorted(set_on)
        anyname = equs + sets + labels

        def pick(pool, fallback):
            return rnd.choice(pool) if pool and rnd.random() < 0.85 else rnd.choice(fallback)
        on = [a for a in aliases if alias_on.get(a)]
        x = rnd.random()
        if segs and rnd.random() < 0.18:
            # symbol directives take effect wherever they are written: wander through the segments
            cur[0] = rnd.choice(["code", "data", "eeprom"])
            prog.append(seg(cur[0]))
            continue
        if cur[0] != "code" and x >= 0.37:
            if cur[0] == "eeprom" and rnd.random() < 0.5:
                prog.append(data(2, E(sym(pick(bound, anyname)))))
            else:
                cur[0] = "code"
                prog.append(seg("code"))
            continue
        if x < 0.22:
            nme = rnd.choice(sets)
            opts = [lit(rnd.randrange(1, 60))]
            if nme in set_on or rnd.random() < 0.1:
                opts.append(binop("+", sym(nme), lit(1)))
            if glob:
                opts.append(binop("+", sym(rnd.choice(glob)), lit(2)))
            prog.append(setv(nme, rnd.choice(opts)))
            set_on.add(nme)
        elif x < 0.37:
            a = rnd.choice(aliases)
            if not alias_on.get(a):
                alias_on[a] = True
                prog.append(defr(a, rnd.choice([16, 17, 20, 31])))
            else:
                alias_on[a] = False
                prog.append(undef(a))
        elif x < 0.50:
            prog.append(instr("ldi", R(18), E(sym(pick(bound, anyname + aliases)))))
        elif x < 0.57:
            # a name inside a larger expression: every operand of every operator is a reference
            a, b = sym(pick(bound, anyname)), sym(pick(bound, anyname))
            op = rnd.choice(["&&", "||", "+", "&", "==", "*"])
            e = binop(op, a, b) if rnd.random() < 0.5 else binop(op, lit(rnd.choice([0, 1])), b)
            prog.append(instr("ldi", R(18), E(binop("&", par(e), lit(63)))))
        elif x < 0.72:
            prog.append(data(2, E(sym(pick(bound, anyname)))))
        elif x < 0.84:
            prog.append(instr("mov", E(sym(pick(on, aliases))), R(1)))
        elif x < 0.94:
            prog.append(instr("ldi", E(sym(pick(on, aliases))), E(sym(pick(bound, anyname)))))
        else:
            prog.append(instr("add", E(sym(pick(on, aliases))), E(sym(pick(on, aliases)))))
    return prog


def check_c10(prop, tier, seed, devices):
    rnd = random.Random(seed)
    cases = []
    nprog = 500 if tier == "quick" else 8000
    for _ in range(nprog):
        base = sym_program(rnd, rnd.randrange(3, 11))

        def mk(p, tag):
            # (a .def of an alias that is still bound -- which a deletion of the .undef in between creates -- binds it anew)
            p = copy.deepcopy(p)
            spells = [Spell(case=rnd.choice(CASES3)) for _ in p]
            cases.append(Case(p, tag=tag, spells=spells))
        mk(base, "base")
        for i, l in enumerate(base):        # every single-line deletion
            mk(base[:i] + base[i + 1:], "deleted")
        for i, l in enumerate(base):        # duplication where the outcome is specified
            if l["k"] in ("equ", "def", "undef"):
                continue
            j = rnd.randrange(i + 1, len(base) + 1)
            mk(base[:j] + [copy.deepcopy(l)] + base[j:], "duplicated")
    # hand-shaped corner cases
    hand = [
        [setv("foo", 1), instr("ldi", R(16), E(sym("foo")))],
        [defr("temp", 16), instr("ldi", E(sym("temp")), E(1)), undef("temp")],
        [defr("temp", 16), undef("temp"), instr("ldi", E(sym("temp")), E(1))],
        [instr("ldi", R(16), E(sym("later"))), equ("later", 9)],
        [instr("rjmp", E(sym("fwd"))), instr("nop"), label("fwd"), instr("ret")],
        [label("twice"), instr("nop"), label("twice")],
        [instr("ldi", R(16), E(sym("nowhere")))],
        [setv("cnt1", 1), data(2, E(sym("cnt1"))), setv("cnt1", binop("+", sym("cnt1"), lit(1))), data(2, E(sym("cnt1")))],
        [data(2, E(sym("v9"))), setv("v9", 4)],
        [equ("a1", binop("+", sym("b1"), lit(1))), equ("b1", 2), instr("ldi", R(16), E(sym("a1")))],
        [equ("dbg", 0), instr("ldi", R(16), E(binop("&&", sym("dbg"), sym("nolevel"))))],
        [equ("dbg", 1), instr("ldi", R(16), E(binop("||", sym("dbg"), sym("nolevel"))))],
        [equ("dbg", 0), data(1, E(binop("&&", sym("dbg"), sym("notable"))), E(1))],
        [setv("xv", 1), seg("data"), setv("xv", 2), seg("code"), instr("ldi", R(16), E(sym("xv")))],
        [defr("tmp", 16), seg("data"), undef("tmp"), seg("code"), instr("inc", E(sym("tmp")))],
        [seg("data"), defr("tmp", 17), byte(1), seg("code"), instr("inc", E(sym("tmp")))],
        [defr("tmp", 16), seg("eeprom"), undef("tmp"), defr("tmp", 18), seg("code"), instr("inc", E(sym("tmp")))],
        [seg("eeprom"), setv("yv", 7), data(1, E(sym("yv"))), seg("data"), setv("yv", 9), seg("code"), data(2, E(sym("yv")))],
    ]
    hand += [[defr("tmp", 16), defr("tmp", 17), instr("ldi", E(sym("tmp")), E(1)), undef("tmp"), instr("nop")],
             [defr("tmp", 16), instr("ldi", E(sym("tmp")), E(1)), defr("tmp", 3), instr("mov", E(sym("tmp")), R(1)), instr("ldi", E(sym("tmp")), E(1))],
             [defr("tmp", 16), defr("tmp", 16), undef("tmp"), instr("inc", E(sym("tmp")))]]
    # an alias is the register it is bound to, also for the rules of a device: the one-word lds/sts of the reduced core take r16..r31
    for rn in (5, 15, 16, 20, 31):
        for mn in ("lds", "sts"):
            ops_ = [E(sym("tmp")), E(0x50)] if mn == "lds" else [E(0x50), E(sym("tmp"))]
            hand.append([line("device", n="ATtiny20"), defr("tmp", rn), instr(mn, *ops_), instr("ret")])
            hand.append([line("device", n="ATtiny10"), defr("tmp", 20), undef("tmp"), defr("tmp", rn), instr(mn, *ops_)])
            hand.append([line("device", n="ATmega48"), defr("tmp", rn), instr(mn, *ops_), instr("ret")])
    # a variable assigned from the location counter, after placed items and after an origin
    hand += [[instr("nop"), instr("nop"), setv("mark", sym("pc")), instr("ldi", R(16), E(sym("mark"))), setv("mark", binop("+", sym("pc"), lit(1))), data(2, E(sym("mark")))],
             [data(2, E(10), E(20), E(30), lab="tab"), setv("tablen", binop("-", sym("pc"), sym("tab"))), instr("ldi", R(16), E(sym("tablen")))],
             [instr("nop"), org(0x10), setv("at", sym("pc")), data(2, E(sym("at"))), seg("eeprom"), data(1, E(1), E(2)), setv("eat", sym("pc")), seg("code"), data(2, E(sym("eat")))]]
    # a reference in a condition to a name that is not known when the line is read fails the build
    hand += [[line("if", e=binop("==", sym("later"), lit(1))), instr("nop"), line("else"), instr("ret"), line("endif"), equ("later", 1), instr("ldi", R(17), E(sym("later")))],
             [line("if", e=sym("nothing")), instr("nop"), line("endif")],
             [equ("known", 0), line("if", e=sym("known")), instr("nop"), line("elif", e=sym("missing")), instr("ret"), line("endif")],
             [equ("known", 2), line("if", e=binop("==", sym("known"), lit(2))), instr("nop"), line("endif")]]
    # macros whose bodies consist of symbol directives only
    hand += [[setv("n", 0), line("macro", n="bump"), setv("n", binop("+", sym("n"), lit(1))), line("endm"), call("bump"), call("bump"), instr("ldi", R(16), E(sym("n")))],
             [defr("tmp", 16), line("macro", n="rel"), undef("tmp"), line("endm"), call("rel"), instr("inc", E(sym("tmp")))],
             [defr("tmp", 16), line("macro", n="reb"), undef("tmp"), defr("tmp", 19), line("endm"), call("reb"), instr("inc", E(sym("tmp")))],
             [line("macro", n="mk"), defr("tmp", 21), line("endm"), instr("nop"), call("mk"), instr("inc", E(sym("tmp"))), undef("tmp")],
             [data(2, E(sym("tab")), lab="tab"), instr("ldi", R(16), E(fn("low", sym("tab")))), seg("data"), byte(2, lab="cnt"), seg("eeprom"), data(1, E(1), lab="ee"),
              seg("code"), data(2, E(sym("cnt")), E(sym("ee")))]]
    # chains of definitions: a name defined through others, used several times in one expression, together with the names it is built on
    chain = [equ("ca", binop("+", lit(1), lit(1))), equ("cb", binop("*", sym("ca"), lit(2))), equ("cc", binop("+", lit(10), sym("cb"))),
             equ("cd", binop("-", sym("cc"), sym("ca")))]
    uses = [binop("+", sym("cb"), sym("cb")), binop("|", binop("<<", sym("cc"), lit(8)), sym("cc")), binop("+", binop("*", sym("cc"), sym("cb")), sym("ca")),
            binop("+", binop("+", sym("cd"), sym("cc")), binop("+", sym("cb"), sym("ca"))), binop("-", sym("cc"), sym("cb")),
            binop("+", sym("ca"), binop("+", sym("cb"), binop("+", sym("cc"), sym("cd")))), binop("*", sym("cd"), sym("cd"))]
    for u in uses:
        for order in (0, 1, 2):
            defs = copy.deepcopy(chain) if order == 0 else list(reversed(copy.deepcopy(chain)))
            use = [data(2, E(copy.deepcopy(u))), instr("ldi", R(16), E(fn("low", copy.deepcopy(u))))]
            hand.append(defs + use if order < 2 else use + defs)
    # names that begin like a register or an index register, also behind a unary operator
    for nme in ("xval", "ypos", "zed", "x2", "yy", "zh2", "rate", "r3d", "r16k", "xh", "pcx", "lowest", "highway", "exp2k"):
        for wrapf in (lambda e: e, lambda e: un("-", e), lambda e: un("~", e), lambda e: un("!", e), lambda e: binop("-", lit(100), e), lambda e: fn("low", un("-", e))):
            hand.append([equ(nme, 5), instr("ldi", R(16), E(fn("low", wrapf(sym(nme))))), instr("ldi", R(17), E(binop("&", wrapf(sym(nme)), lit(0xff)))),
                         data(2, E(binop("&", wrapf(sym(nme)), lit(0xffff))))])
            hand.append([instr("subi", R(18), E(binop("&", wrapf(sym(nme)), lit(0x7f)))), label(nme), instr("nop")])
    for p in hand:
        for cs in CASES3:
            for cs2 in CASES3:
                q = copy.deepcopy(p)
                spells = [Spell(case=cs if i % 2 == 0 else cs2) for i in range(len(q))]
                cases.append(Case(q, tag="hand", spells=spells))
    return run_cases(prop, tier, seed, cases, devices, keyf=default_key,
                     rule="random programs of 3-9 lines over {label def, .equ (literal / other+1), .set (literal / self+1 / equ*2 / label+3), "
                          ".def, .undef, uses in ldi/.dw/mov/add} with disjoint name pools, every line spelled in lower/upper/mixed case; "
                          "plus every single-line deletion and every duplication whose outcome the property fixes; plus hand-shaped corners",
                     assumptions=["cross-kind name clashes and .equ redefinition are not generated (property silent); a .def of a bound alias binds it anew",
                                  ".equ bodies refer only to literals, other .equ names and labels (eager vs lazy evaluation is not specified)"])


CHECKS["C10"] = check_c10


# ========================================================================================
# C08 -- conditional assembly

def cond_structures(n, depth):
    """All well-formed line-kind sequences of exactly n lines at nesting <= depth.
    Yields tuples of symbols: 'S' statement, ('if',c) ('elif',c) 'else' 'endif'."""
    memo = {}

    def block(n, d):
        # sequences of statements / constructs using exactly n lines
        key = ("b", n, d)
        if key in memo:
            return memo[key]
        out = []
        if n == 0:
            out.append(())
        else:
            for rest in block(n - 1, d):
                out.append(("S",) + rest)
            if d > 0:
                for k in range(2, n + 1):
                    for c in construct(k, d):
                        for rest in block(n - k, d):
                            out.append(c + rest)
        memo[key] = out
        return out

    def construct(n, d):
        # if B (elif B)* (else B)? endif  using exactly n lines
        key = ("c", n, d)
        if key in memo:
            return memo[key]
        out = []
        for body in arms(n - 2, d - 1, True):
            out.append((("if",),) + body + ("endif",))
        memo[key] = out
        return out

    def arms(n, d, first):
        # first arm body, then (elif body)*, then optional else body -- exactly n lines
        key = ("a", n, d, first)
        if key in memo:
            return memo[key]
        out = []
        for k in range(0, n + 1):
            for b in block(k, d):
                left = n - k
                if left == 0:
                    out.append(b)
                else:
                    # continue with elif
                    for rest in arms(left - 1, d, False):
                        out.append(b + (("elif",),) + rest)
                    # or finish with else
                    for eb in block(left - 1, d):
                        out.append(b + ("else",) + eb)
        memo[key] = out
        return out

    return block(n, depth)


IF_FORMS = ["if0", "if1", "ifk1", "ifk2", "ifdef", "ifndef", "ifneg", "ifbig", "ifdiff", "ifdiv0", "ifnosym", "ifbadarg", "ifand", "ifor", "ifandz"]
STMTS = ["mark", "msg", "garbage", "define", "mark", "labeluse"]


CONDK = ("if", "ifdef", "ifndef", "elif", "else", "endif")


def cond_program(struct, choice):
    """Instantiates a structure; choice(i, options) picks per position."""
    prog = [equ("kk", 1)]
    nlab = 0
    for i, s in enumerate(struct):
        if s == "S":
            st = choice(i, STMTS)
            if st == "mark":
                prog.append(instr("ldi", R(16), E(i + 1)))
            elif st == "msg":
                prog.append(line("message", txt="msg%d" % i))
            elif st == "garbage":
                prog.append(line("garbage", text="this is ( not assembly %d" % i))
            elif st == "define":
                prog.append(line("define", n="FLAG"))
            else:
                nlab += 1
                prog.append(instr("rjmp", E(sym("lb%d" % nlab)), lab="lb%d" % nlab))
        elif s == "else":
            prog.append(line("else"))
        elif s == "endif":
            prog.append(line("endif"))
        elif s[0] == "if":
            f = choice(i, IF_FORMS)
            if f in ("if0", "if1"):
                prog.append(line("if", e=lit(int(f[-1]))))
            elif f in ("ifk1", "ifk2"):
                prog.append(line("if", e=binop("==", sym("kk"), lit(int(f[-1])))))
            elif f == "ifneg":
                prog.append(line("if", e=un("-", lit(1))))                      # any non-zero value holds
            elif f == "ifbig":
                prog.append(line("if", e=binop("<<", lit(1), lit(63))))
            elif f == "ifdiff":
                prog.append(line("if", e=binop("-", sym("kk"), lit(3))))
            elif f == "ifdiv0":                                                 # no value: an error where it is evaluated, nothing where it is not
                prog.append(line("if", e=binop("/", lit(1), binop("-", sym("kk"), lit(1)))))
            elif f == "ifnosym":
                prog.append(line("if", e=binop("+", sym("nosuchsym"), lit(1))))
            elif f == "ifand":                                                  # both hold, no bit in common
                prog.append(line("if", e=binop("&&", sym("kk"), lit(2))))
            elif f == "ifor":
                prog.append(line("if", e=binop("||", binop("-", sym("kk"), lit(1)), lit(4))))
            elif f == "ifandz":
                prog.append(line("if", e=binop("&&", lit(6), binop("-", sym("kk"), lit(1)))))
            elif f == "ifbadarg":                                               # a line no grammar takes ('.if @0' outside a macro): counted all the same
                prog.append(line("if", e=binop("==", arg(0), lit(1))))
            else:
                prog.append(line(f, n="FLAG"))
        elif s[0] == "elif":
            # (an .elif whose line no grammar takes is not generated: met while a branch is assembled the line is read as a
            #  whole -- whether that is an error is not settled by the property; .if forms of that kind are generated)
            f = choice(i, ["0", "1", "k1", "k2", "neg", "div0", "nosym"])
            prog.append(line("elif", e=lit(int(f)) if f in "01" else un("~", lit(0)) if f == "neg" else binop("%", lit(7), lit(0)) if f == "div0"
                             else sym("nosuchsym") if f == "nosym" else arg(1) if f == "badarg" else binop("==", sym("kk"), lit(int(f[-1])))))
    return prog


def mc_cond(tier):
    """Model-checks the conditional machinery of the specification itself (MC_Cond) and its broken variant."""
    sc = Scratch("C08-mc")
    try:
        mc = model_check("MC_Cond", sc, cfg="MC_Cond" if tier == "quick" else "MC_Cond_thorough", workers=8, xmx="12g", coverage=False,
                         timeout=3000)
        rb = run_tlc("MC_Cond", cfg="MC_Cond_broken", workdir=sc.dir, timeout=600, workers=4, xmx="4g")
        if "Invariant SelectedAgree is violated" not in rb.out:
            raise ToolError("non-vacuity: the reader without a taken flag must violate SelectedAgree")
        mc["theorems"] = ("SelectedAgree: the stack machine assembles exactly the lines the declarative reading of the property selects; "
                          "Filtered: a program and its filtered text build to the same result -- for every well-formed program of up to %d lines "
                          "(nesting <= 3) over {.if 0/1, .if K==1, .ifdef/.ifndef, .elif 0/1, .else, .endif, .define, marker, garbage}" % (6 if tier == "quick" else 7))
        mc["broken_variant"] = "the reader without a taken flag (the implementation before fix fd04ac7) violates SelectedAgree after %d states" % rb.distinct
        # the stack on its own, for programs of any length (every step is the next line of some program)
        mm = model_check("MC_CondMachine", sc, cfg="MC_CondMachine" if tier == "quick" else "MC_CondMachine_thorough", workers=8, xmx="8g", coverage=False, timeout=3000)
        rb2 = run_tlc("MC_CondMachine", cfg="MC_CondMachine_broken", workdir=sc.dir, timeout=600, workers=2, xmx="2g")
        if "Invariant Agree is violated" not in rb2.out:
            raise ToolError("non-vacuity: the stack without a taken flag must violate Agree")
        mm["theorems"] = ("for programs of any length with nesting <= %d (all reachable states of the stack machine of Cond.tla): Agree (a line is assembled iff every "
                          "enclosing construct stands in its chosen branch, the choice recorded independently of the stack), AtMostOne, NoPeek (a condition that is not "
                          "evaluated influences nothing), Decides; JudgeComplete / JudgeSound: the judge of the reader's line events (ReaderJudge.tla, used by "
                          "Trace_Pipeline) accepts what the reference reader reports for every next line and follows its stack, and rejects the same line reported the "
                          "other way round" % (6 if tier == "quick" else 8))
        mm["broken_variant"] = "the stack without a taken flag violates Agree after %d states" % rb2.distinct
        mc["machine"] = mm
        mc["states"] += mm["states"]
        mc["transitions"] += mm["transitions"]
        return mc
    finally:
        sc.cleanup()


def check_c08(prop, tier, seed, devices):
    rnd = random.Random(seed)
    mc = mc_cond(tier)
    cases = []
    maxn = 7 if tier == "quick" else 9
    per_struct = 3 if tier == "quick" else 6
    nstruct = 0
    for n in range(2, maxn + 1):
        for struct in cond_structures(n, 3):
            if not any(isinstance(s, tuple) for s in struct):
                continue
            nstruct += 1
            # all-true, all-false and seeded assignments of the free choices
            assigns = [lambda i, o: o[0], lambda i, o: o[1 % len(o)]]
            for _ in range(per_struct):
                assigns.append(lambda i, o, r=random.Random(rnd.random()): r.choice(o))
            for ci, ch in enumerate(assigns):
                prog = cond_program(struct, ch)
                texts = [l["txt"] for l in prog if l["k"] == "message"]
                cases.append(Case(prog, tag="len%d" % n, msg_texts=texts))
                if ci >= 2 and ci % 2 == 0:
                    # the same program with comments on every line (texts with colons, directive words, parentheses)
                    cases.append(Case(copy.deepcopy(prog), tag="len%dc" % n, msg_texts=texts,
                                      spell=Spell(comment=rnd.choice([";", "//", "/*"]), ws=rnd.randrange(4), blank_before=rnd.randrange(3))))
                if ci >= 2:
                    # the same program with (some of) its conditional directives in the '#' spelling
                    p2 = copy.deepcopy(prog)
                    for l in p2:
                        if l["k"] in CONDK and rnd.random() < 0.7:
                            l["pfx"] = "#"
                    cases.append(Case(p2, tag="len%d#" % n, msg_texts=texts))
    # conditionals inside macro bodies: every expansion is read anew, with the definitions in force at that call
    for ncalls in (1, 2, 3, 4):
        for pfx in (".", "#"):
            for first in ("ifndef", "ifdef"):
                body = [line(first, n="SEEN", pfx=pfx), line("define", n="SEEN"), instr("ldi", R(16), E(1)), line("else", pfx=pfx),
                        instr("ldi", R(17), E(2)), line("endif", pfx=pfx)]
                for pre in ([], [line("define", n="SEEN")]):
                    prog = [line("macro", n="once")] + copy.deepcopy(body) + [line("endm")] + copy.deepcopy(pre) + [call("once") for _ in range(ncalls)] + [instr("nop")]
                    cases.append(Case(prog, tag="macro-cond"))
                    prog = [line("macro", n="sel")] + [line("if", e=binop("==", arg(0), lit(1)), pfx=pfx), data(1, E(0x11)), line("elif", e=binop("==", arg(0), lit(2)), pfx=pfx),
                                                        data(1, E(0x22)), line("else", pfx=pfx), data(1, E(0x33)), line("endif", pfx=pfx)] + [line("endm")] + \
                           [call("sel", E(1 + (k + ncalls) % 3)) for k in range(ncalls)]
                    cases.append(Case(prog, tag="macro-cond"))
    for cmt in ("data space: use sts", "':' ends a label", "see note: x", "a:b:c"):
        for outer in (0, 1):
            for pfx in (".", "#"):
                prog = [line("if", e=lit(outer), pfx=pfx), dict(line("if", e=binop(">", arg(0), lit(63)), pfx=pfx), cmt=cmt), instr("ldi", R(16), E(1)), line("else", pfx=pfx),
                        instr("ldi", R(16), E(2)), dict(line("endif", pfx=pfx), cmt=cmt), instr("ret"), line("else", pfx=pfx), instr("sleep"), line("endif", pfx=pfx), instr("nop")]
                cases.append(Case(prog, tag="unparsable-conditional"))
                prog = [line("ifdef", n="NOPE", pfx=pfx), line("macro", n="m"), dict(line("if", e=binop("<", arg(1), lit(2))), cmt=cmt), instr("nop"), dict(line("endif"), cmt=cmt), line("endm"),
                        line("endif", pfx=pfx), instr("ret")]
                cases.append(Case(prog, tag="unparsable-conditional"))
    deep = lit(1)
    for _ in range(70):
        deep = par(deep)
    chainy = lit(1)
    for i in range(140):
        chainy = binop("||", chainy, par(binop("==", sym("kk"), lit(i))))
    for cond in (deep, chainy, un("-", deep)):
        for pfx in (".", "#"):
            for opener in (line("if", e=lit(0), pfx=pfx), line("ifdef", n="NOPE", pfx=pfx)):
                prog = [copy.deepcopy(opener), line("if", e=copy.deepcopy(cond), pfx=pfx), instr("ldi", R(16), E(1)), line("else", pfx=pfx), instr("ldi", R(16), E(2)),
                        line("endif", pfx=pfx), instr("ret"), line("else", pfx=pfx), instr("sleep"), line("endif", pfx=pfx), instr("nop")]
                cases.append(Case(prog, tag="too-deep-conditional"))
                prog = [copy.deepcopy(opener), instr("ret"), line("if", e=lit(1), pfx=pfx), instr("nop"), line("elif", e=copy.deepcopy(cond), pfx=pfx), instr("ret"),
                        line("endif", pfx=pfx), line("endif", pfx=pfx), instr("sleep")]
                cases.append(Case(prog, tag="too-deep-conditional"))
    # an .elif whose line no grammar takes, reached when no branch before it was assembled: it is its turn, the build fails
    for pfx in (".", "#"):
        for outer in (None, 1):
            chain = [line("if", e=lit(0), pfx=pfx), instr("nop"), line("elif", e=binop("==", arg(1), lit(1)), pfx=pfx), instr("ret"), line("else", pfx=pfx), instr("sleep"), line("endif", pfx=pfx)]
            prog = ([line("if", e=lit(1), pfx=pfx)] if outer else []) + chain + ([line("endif", pfx=pfx)] if outer else []) + [instr("sei")]
            cases.append(Case(prog, tag="elif-unparsable-in-turn"))
            chain2 = [line("ifdef", n="NOPE", pfx=pfx), instr("nop"), line("elif", e=lit(0), pfx=pfx), instr("cli"), line("elif", e=arg(0), pfx=pfx), instr("ret"), line("endif", pfx=pfx)]
            cases.append(Case(([line("if", e=lit(1), pfx=pfx)] if outer else []) + chain2 + ([line("endif", pfx=pfx)] if outer else []) + [instr("sei")], tag="elif-unparsable-in-turn"))
    # text that merely begins like a conditional directive is text
    for junk in (".endif_x", ".else2", ".if2", "#endif9", ".elif_", ".ifdefx FLAG", ".endifs", ".iff 1"):
        for outer in (0, 1):
            prog = [line("if", e=lit(outer))] + ([line("garbage", text=junk)] if outer == 0 else []) + [instr("ldi", R(16), E(1)), line("else"), line("garbage", text=junk) if outer == 1 else instr("nop"),
                    instr("ldi", R(16), E(2)), line("endif"), instr("ret")]
            cases.append(Case(prog, tag="glued-word"))
    # a macro definition inside a branch that is not assembled: its lines are passed over like any others, the conditional
    # directives among them count, whatever follows the directive word
    for outer in (0, 1):
        for inner_else in (False, True):
            body = [line("if", e=binop(">", arg(0), lit(2))), instr("ldi", R(16), E(1))] + ([line("else"), instr("ldi", R(16), E(2))] if inner_else else []) + [line("endif")]
            for form in (".endm", ".endmacro"):
                prog = [line("if", e=lit(outer)), line("macro", n="sel")] + copy.deepcopy(body) + [line("endm", form=form), call("sel", E(3)), line("else"), instr("ldi", R(17), E(7)),
                                                                                                     line("endif"), instr("nop")]
                cases.append(Case(prog, tag="macro-def-in-branch"))
                # two variants of one macro, one per branch
                prog = [line("ifdef", n="FAST"), line("macro", n="var"), instr("ldi", R(16), E(1)), line("endm", form=form), line("else"),
                        line("macro", n="var"), instr("ldi", R(16), E(2)), line("endm", form=form), line("endif"), call("var"), instr("nop")]
                cases.append(Case(([line("define", n="FAST")] if outer else []) + prog, tag="macro-def-in-branch"))
    # de-duplicate
    seen, uniq = set(), []
    for c in cases:
        if c.src not in seen:
            seen.add(c.src)
            uniq.append(c)
    if tier == "quick" and len(uniq) > 25000:
        uniq = rnd.sample(uniq, 25000)
    return run_cases(prop, tier, seed, uniq, devices, keyf=default_key, mc=mc,
                     extra=[pipeline_extra(sample=2500 if tier == "quick" else 25000, fixtures=True, suite=True, seed=seed)],
                     rule="every well-formed nesting structure (if / elif* / else? / endif, nesting <= 3) of up to %d lines, each instantiated with "
                          "all-true, all-false and %d seeded assignments of {.if 0/1, .if K==k, .ifdef/.ifndef FLAG} x {.elif 0/1/K==k} x "
                          "{marker instruction, .message, garbage text, .define FLAG, label+use}; %d structures" % (maxn, per_struct, nstruct),
                     assumptions=["ill-formed chains (.elif after .else, unbalanced .endif, missing .endif) are not generated (C16 only)"])


CHECKS["C08"] = check_c08


# ========================================================================================
# C15 -- error lines and messages

def base_programs():
    return [
        [instr("ldi", R(16), E(1)), instr("nop", lab="main"), data(2, E(sym("main"))), instr("rjmp", E(sym("main")))],
        [equ("k", 5), seg("data"), byte(2, lab="buf"), seg("code"), instr("lds", R(16), E(sym("buf"))), instr("ldi", R(17), E(sym("k")))],
        [line("if", e=lit(1)), instr("nop"), line("else"), instr("ret"), line("endif"), instr("sei", lab="main")],
        [seg("eeprom"), data(1, E(1), E(2), lab="ee"), seg("code"), instr("ldi", R(20), E(fn("low", sym("ee")))), label("main")],
        [setv("cnt", 1), data(1, E(sym("cnt")), E(0)), setv("cnt", binop("+", sym("cnt"), lit(1))), instr("inc", R(1), lab="main")],
    ]


def fault_lines():
    return [
        ("syntax", [line("garbage", text="ldi r16,, 1")]),
        ("syntax", [line("garbage", text="%%% what")]),
        ("syntax", [line("garbage", text='.db "unterminated')]),
        ("syntax", [line("garbage", text=".dw 1 2")]),
        ("syntax", [line("garbage", text=".def acc = 1+2")]),
        ("syntax", [line("garbage", text=".db2")]),
        ("syntax", [line("garbage", text=".dw1,2")]),
        ("syntax", [line("garbage", text=".org 0x300, 5")]),
        ("syntax", [line("garbage", text=".message \"a\", \"b\"")]),
        ("syntax", [line("garbage", text=".def acc = 5")]),
        ("syntax", [line("garbage", text=".db 5 'a'")]),
        ("syntax", [line("garbage", text=".org 4 5")]),
        ("syntax", [line("garbage", text="ldi r16 1")]),
        # a comment opener does not make the rest of the line a comment
        ("syntax", [line("garbage", text="/* set up */ ldi r16, 1")]),
        ("syntax", [line("garbage", text="/* not closed ldi r16, 1")]),
        ("syntax", [line("garbage", text="/**/ ret")]),
        ("syntax", [line("garbage", text="// note */ nop /*")] if False else [line("garbage", text="/* a */ /* b */ nop")]),
        ("unknown-mnemonic", [call("frobnicate", R(1), R(2))]),
        ("unknown-mnemonic", [call("frobnicate")]),
        ("unknown-mnemonic", [call("blorp", E(3))]),
        ("wrong-kind", [instr("ldi", R(16), R(2))]),
        ("wrong-kind", [instr("mov", R(1), E(5))]),
        ("out-of-range", [instr("ldi", R(16), E(300))]),
        ("out-of-range", [instr("sbi", E(40), E(1))]),
        ("out-of-range", [instr("adiw", R(24), E(64))]),
        ("out-of-range", [instr("ldi", R(3), E(1))]),
        # a register outside the class the instruction takes, in either position
        ("wrong-register", [instr("mulsu", R(16), R(24))]),
        ("wrong-register", [instr("mulsu", R(24), R(16))]),
        ("wrong-register", [instr("fmul", R(23), R(31))]),
        ("wrong-register", [instr("fmulsu", R(15), R(16))]),
        ("wrong-register", [instr("muls", R(16), R(15))]),
        ("wrong-register", [instr("movw", R(2), R(5))]),
        ("wrong-register", [instr("movw", R(1), R(3))]),
        ("wrong-register", [instr("adiw", R(23), E(1))]),
        ("wrong-register", [instr("sbiw", R(25), E(1))]),
        ("wrong-register", [instr("cpi", R(15), E(1))]),
        ("wrong-register", [instr("ser", R(7))]),
        ("syntax", [line("garbage", text="ldi r16, " + "(" * 70 + "1" + ")" * 70)]),
        # values whose low byte / low word alone would be a valid operand
        ("out-of-range-wrap", [instr("out", E(0x10b), R(16))]),
        ("out-of-range-wrap", [instr("in", R(16), E(lit(-251)))]),
        ("out-of-range-wrap", [instr("sbi", E(0x105), E(1))]),
        ("out-of-range-wrap", [instr("cbi", E(5), E(0x101))]),
        ("out-of-range-wrap", [instr("ldi", R(16), E(0x10005))]),
        ("out-of-range-wrap", [instr("adiw", R(24), E(0x101))]),
        ("out-of-range-wrap", [instr("bld", R(0), E(0x100))]),
        ("out-of-range-wrap", [instr("lds", R(16), E(0x10060))]),
        ("out-of-range-wrap", [instr("ldd", R(16), IX("Y", "disp", lit(0x101)))]),
        ("out-of-range-wrap", [instr("rjmp", E(binop("+", sym("pc"), lit(0x1001))))]),
        ("out-of-range-wrap", [instr("brne", E(binop("+", sym("pc"), lit(0x81))))]),
        ("out-of-range-wrap", [data(1, E(0x10041))]),
        ("out-of-range-wrap", [data(2, E(0x100001234))]),
        ("undef-instr", [instr("ldi", R(16), E(sym("nosuch")))]),
        ("undef-data", [data(2, E(sym("nosuch")))]),
        ("undef-set", [setv("zz", binop("+", sym("nosuch"), lit(1)))]),
        ("undef-if", [line("if", e=sym("nosuch")), line("endif")]),
        ("undef-instr", [instr("ldi", R(16), E(binop("&&", lit(0), sym("nosuch"))))]),
        ("undef-instr", [instr("ldi", R(16), E(binop("||", lit(1), sym("nosuch"))))]),
        ("undef-data", [data(1, E(1), E(binop("&&", lit(0), sym("nosuch"))))]),
        ("undef-set", [setv("zz", binop("&&", lit(0), sym("nosuch")))]),
        ("undef-if", [line("if", e=binop("&&", lit(0), sym("nosuch"))), line("endif")]),
        ("undef-if", [line("if", e=binop("||", lit(1), sym("nosuch"))), instr("nop"), line("endif")]),
        ("undef-if", [line("if", e=lit(0)), line("elif", e=sym("nosuch")), line("endif")]),
        ("div-zero", [data(2, E(binop("/", lit(4), lit(0))))]),
        ("div-zero", [instr("ldi", R(16), E(binop("%", lit(4), binop("-", lit(2), lit(2)))))]),
        ("misfit-data", [data(1, E(1), E(256), E(2))]),
        ("misfit-data", [data(2, E(70000))]),
        ("string-in-dw", [data(2, E(1), S("ab"))]),
        ("dup-label", [label("main")]),
        ("error-directive", [line("error", txt="stop here")]),
    ]


def check_c15(prop, tier, seed, devices):
    rnd = random.Random(seed)
    cases = []
    for bi, base in enumerate(base_programs()):
        for pos in range(len(base) + 1):
            # do not split an .if ... .endif of the base program in a way that hides the fault: allowed, the spec decides
            for kind, fl in fault_lines():
                for shift in (0, 7):
                    prog = [line("blank") for _ in range(shift)] + copy.deepcopy(base[:pos]) + copy.deepcopy(fl) + copy.deepcopy(base[pos:])
                    cases.append(Case(prog, tag=kind, chkline=True))
    # the fault stands in a macro body that is called once: the line named is the line of the body
    for bi, base in enumerate(base_programs()[:2]):
        for kind, fl in fault_lines():
            if any(l["k"] in ("if", "elif", "endif") for l in fl):
                continue
            for callpos in (0, len(base)):
                for shift in (0, 5):
                    prog = [line("blank") for _ in range(shift)] + [line("macro", n="faulty"), instr("nop")] + copy.deepcopy(fl) + [instr("ret"), line("endm")] + \
                           copy.deepcopy(base[:callpos]) + [call("faulty")] + copy.deepcopy(base[callpos:])
                    cases.append(Case(prog, tag=kind + "-in-macro", chkline=True))
                    if shift == 0 and fl[0]["k"] in ("call", "instr", "garbage"):
                        # ... behind an origin / a segment round trip inside the body
                        for mid in ([org(0x200)], [seg("eeprom"), data(1, E(1)), seg("code")]):
                            prog = [line("macro", n="faulty"), instr("nop")] + copy.deepcopy(mid) + copy.deepcopy(fl) + [instr("ret"), line("endm")] + \
                                   copy.deepcopy(base[:callpos]) + [call("faulty")] + copy.deepcopy(base[callpos:])
                            cases.append(Case(prog, tag=kind + "-in-macro", chkline=True))
    # messages: placements of .message/.warning/.error around and inside taken / untaken branches
    slots = 6
    skeleton = lambda: [instr("nop"), line("if", e=lit(1)), instr("ldi", R(16), E(1)), line("else"), instr("ldi", R(16), E(2)), line("endif"),
                        line("ifdef", n="NOPE"), instr("ret"), line("endif"), instr("sei")]
    chain = lambda: [instr("nop"), line("if", e=lit(0)), instr("ldi", R(16), E(1)), line("elif", e=lit(1)), instr("ldi", R(16), E(2)),
                     line("elif", e=lit(1)), instr("ldi", R(16), E(3)), line("else"), instr("ldi", R(16), E(4)), line("endif"),
                     line("if", e=lit(1)), line("if", e=lit(0)), instr("ret"), line("elif", e=lit(1)), instr("sei"), line("elif", e=lit(1)), instr("cli"),
                     line("endif"), line("elif", e=lit(1)), instr("nop"), line("endif"), instr("sleep")]
    nested = lambda: [instr("nop"), line("if", e=lit(0)), line("ifndef", n="NOPE"), instr("ldi", R(16), E(1)), line("endif"), instr("ldi", R(16), E(2)),
                      line("ifdef", n="NOPE"), instr("ldi", R(16), E(3)), line("else"), instr("ldi", R(16), E(4)), line("endif"), instr("ldi", R(16), E(5)),
                      line("else"), line("ifndef", n="NOPE"), instr("ldi", R(16), E(6)), line("endif"), instr("ldi", R(16), E(7)), line("endif"), instr("sleep")]
    n = 0
    for combo in itertools.product([None, "message", "warning", "error"], repeat=4):
        for skel, places in ((skeleton, [0, 2, 4, 9]), (skeleton, [1, 3, 7, 10]), (skeleton, [2, 2, 5, 8]),
                             (chain, [2, 4, 6, 8]), (chain, [5, 7, 9, 22]), (chain, [12, 14, 16, 19]),
                             (nested, [3, 5, 7, 9]), (nested, [5, 11, 14, 16]), (nested, [1, 9, 12, 18])):
            prog = skel()
            texts = []
            ins = sorted(((p, k) for p, k in zip(places, combo) if k), key=lambda x: -x[0])
            for j, (p, k) in enumerate(ins):
                n += 1
                t = "note%dx%d" % (n, j)
                texts.append(t)
                prog.insert(p, line(k, txt=t))
            for shift in (0, 7):
                q = [line("blank") for _ in range(shift)] + copy.deepcopy(prog)
                cases.append(Case(q, tag="messages", chkline=True, msg_texts=texts))
            # conditions that hold with a value other than 1: negative, large
            q = copy.deepcopy(prog)
            for j, l in enumerate(q):
                if l["k"] in ("if", "elif") and l["e"].get("t") == "num" and l["e"]["v"] == 1:
                    l["e"] = [un("-", lit(1)), un("~", lit(0)), binop("-", lit(2), lit(5)), lit(1 << 40), un("-", lit(1 << 40))][(j + n) % 5]
            cases.append(Case(q, tag="messages-neg", chkline=True, msg_texts=texts))
            # the same placement with the conditional directives in the '#' spelling (all of them / a seeded half)
            for mode in (0, 1):
                q = copy.deepcopy(prog)
                for l in q:
                    if l["k"] in CONDK and (mode == 0 or rnd.random() < 0.5):
                        l["pfx"] = "#"
                cases.append(Case(q, tag="messages#", chkline=True, msg_texts=texts))
    for nm, ncalls, sameargs in ((1, 1, True), (1, 2, True), (2, 3, True), (1, 3, False), (2, 2, False)):
        for kindm in ("message", "warning"):
            texts = ["macro note %d" % i for i in range(nm)]
            body = [instr("nop")] + [line(kindm, txt=t) for t in texts] + [line("if", e=binop(">", arg(0), lit(0))), line("message", txt="cond note"), line("endif"), instr("ret")]
            calls_ = [call("talk", E(1 if sameargs else k)) for k in range(ncalls)]
            prog = [line("message", txt="top first"), line("macro", n="talk")] + body + [line("endm")] + calls_ + [line("warning", txt="top last"), instr("sleep")]
            cases.append(Case(prog, tag="messages-in-macro", chkline=True, msg_texts=texts + ["cond note", "top first", "top last"]))
    for blank in ("", " ", "   "):
        for kinds3 in (("message", "warning", "error"), ("error",), ("warning", "message"), ("message", "error", "message")):
            prog = [instr("nop")] + [line(k_, txt=blank) for k_ in kinds3] + [instr("ret")]
            cases.append(Case(prog, tag="messages-blank", chkline=True, msg_texts=[blank]))
            prog = [line("if", e=lit(0)), line("error", txt=blank), line("elif", e=lit(1))] + [line(k_, txt=blank) for k_ in kinds3] + [line("endif"), instr("ret")]
            cases.append(Case(prog, tag="messages-blank", chkline=True, msg_texts=[blank]))
            prog = [line("macro", n="say")] + [line(k_, txt=blank) for k_ in kinds3] + [line("endm"), instr("nop"), call("say"), instr("ret")]
            cases.append(Case(prog, tag="messages-blank", chkline=True, msg_texts=[blank]))
    return run_cases(prop, tier, seed, cases, devices, keyf=default_key,
                     rule="messages with empty and blank texts; messages from macro bodies called one to three times with equal and different arguments; 5 valid base programs x every insertion position x %d single-line faults (syntax, unknown mnemonic, wrong kind, "
                          "out of range also by a multiple of 256 / 65536, undefined symbol in instruction/data/.set/.if/.elif also beside a deciding && / ||, zero divisor, misfit, string in .dw, "
                          "duplicate label, .error), each built as is and "
                          "shifted down by 7 lines; the error text must contain the specification's fault line as an integer token both times; "
                          "every fault also inside a macro body called once (the body's line is named); plus 2304 placements of .message/.warning/.error in and around taken and untaken branches, including .elif chains and nested chains, "
                          "in the '.' and the '#' spelling of the conditional directives" % len(fault_lines()),
                     assumptions=["line numbers inside included files are not checked (property silent); messages from macro bodies are listed when the body is expanded, i.e. after the messages of the lines around the call"])


CHECKS["C15"] = check_c15


# ========================================================================================
# C12 -- capacity limits

def limit_cases(devname, d):
    """Programs reaching capacity-1, capacity, capacity+1 of each memory by different means."""
    out = []
    dev = [line("device", n=devname)] if devname else []
    F, E_, R_, RS = d["flash"], d["eeprom"], d["ramsize"], d["ramstart"]

    def add(tag, body):
        out.append(Case(dev + body, tag=tag, mat=False))
    # flash (words): by instruction, by data, by two-word instruction, by .org
    for delta in (-1, 0, 1):
        n = F + delta            # words wanted
        if n >= 1:
            add("flash.instr", [org(n - 1), instr("nop")])
            add("flash.dw", [org(n - 1), data(2, E(0x1234))])
            add("flash.db", [org(n - 1), data(1, E(1))])
        if n >= 2:
            add("flash.jmp", [org(n - 2), instr("rjmp", E(0)), instr("nop")])
            add("flash.dd", [org(n - 2), data(4, E(1))])
        if n >= 3:
            add("flash.mixed", [instr("nop"), data(1, S("ab")), org(n - 1), instr("ret")])
    # origins that only fit modulo 2^32 / 2^16
    for big in (1 << 32, (1 << 32) + F - 1, (1 << 32) + 1, (1 << 33) + 2, (1 << 40)):
        add("flash.org-wrap", [org(big), instr("nop")])
        add("eeprom.org-wrap", [seg("eeprom"), org(big), data(1, E(1))])
        add("ram.org-wrap", [seg("data"), org(big + RS), byte(1)])
    add("flash.org-wrap", [equ("far", 1 << 32), org(binop("+", sym("far"), lit(2))), instr("nop")])
    for delta in (-1, 0, 1):
        n = F + delta
        if n >= 1:
            add("flash.org-reselect", [org(n - 1), seg("code"), instr("nop")])
        m = E_ + delta
        if m >= 1:
            add("eeprom.org-reselect", [seg("eeprom"), org(m - 1), seg("eeprom"), data(1, E(1))])
        r = R_ + delta
        if r >= 1:
            add("ram.org-reselect", [seg("data"), org(RS + r - 1), seg("data"), byte(1)])
    # a macro that switches to a memory and sets the origin there, called from code
    for delta in (-1, 0, 1):
        r = R_ + delta
        if r >= 1:
            add("ram.macro-org", [line("macro", n="var"), seg("data"), org(arg(0)), byte(arg(1)), seg("code"), line("endm"), instr("nop"), call("var", E(RS + r - 1), E(1)), instr("ret")])
        m = E_ + delta
        if m >= 1:
            add("eeprom.macro-org", [line("macro", n="ee"), seg("eeprom"), org(arg(0)), data(1, ARG(1)), seg("code"), line("endm"), instr("nop"), call("ee", E(m - 1), E(7)), instr("ret")])
    # a memory filled exactly in two or three blocks
    for delta in (-1, 0, 1):
        n = E_ + delta
        if n >= 4:
            add("eeprom.blocks", [seg("eeprom"), data(1, E(1), E(2)), org(n - 1), data(1, E(3))])
            add("eeprom.blocks", [seg("eeprom"), data(1, E(1), E(2), E(3)), seg("code"), instr("nop"), seg("eeprom"), byte(n - 4), data(1, E(9))])
            add("eeprom.blocks", [seg("eeprom"), data(2, E(1)), org(4), data(1, E(1)), seg("data"), byte(1), seg("eeprom"), org(n - 2), data(2, E(7))])
        m = F + delta
        if m >= 6:
            add("flash.blocks", [instr("nop"), instr("nop"), org(4), instr("ret"), org(m - 1), instr("nop")])
            add("flash.blocks", [data(1, E(1), E(2), E(3)), seg("eeprom") if E_ else seg("data"), seg("code"), org(m - 2), data(2, E(1), E(2))])
        r = R_ + delta
        if r >= 4:
            add("ram.blocks", [seg("data"), byte(2), org(RS + 3), byte(r - 3)])
            add("ram.blocks", [seg("data"), byte(1), seg("code"), instr("nop"), seg("data"), byte(1), org(RS + r - 1), byte(1)])
    # eeprom (bytes)
    for delta in (-1, 0, 1):
        n = E_ + delta
        if n >= 1:
            add("eeprom.db", [seg("eeprom"), org(n - 1), data(1, E(1))])
            add("eeprom.byte", [seg("eeprom"), byte(n)])
            add("eeprom.byte+db", [seg("eeprom"), byte(n - 1), data(1, E(7))])
        if n >= 2:
            add("eeprom.dw", [seg("eeprom"), org(n - 2), data(2, E(1))])
        if n == 0:
            add("eeprom.none", [seg("eeprom"), instr("nop")] if False else [seg("code"), instr("nop")])
    # ram (bytes)
    for delta in (-1, 0, 1):
        n = R_ + delta
        if n >= 1:
            add("ram.byte", [seg("data"), byte(n)])
            add("ram.org", [seg("data"), org(RS + n - 1), byte(1)])
            add("ram.split", [seg("data"), byte(1), seg("code"), instr("nop"), seg("data"), byte(n - 1)])
        if n == 0:
            add("ram.zero", [seg("data"), byte(0), seg("code"), instr("nop")])
    return out


def check_c12(prop, tier, seed, devices):
    cases = []
    default = {"flash": 4194304, "eeprom": 65536, "ramsize": 8388608, "ramstart": 0x60}
    for name in sorted(devices):
        cases += limit_cases(name, devices[name])
    cases += limit_cases("", default)
    # unknown device, second device, reported sizes of a trivial program for every device
    cases.append(Case([line("device", n="ATnothing99"), instr("nop")], tag="unknown-device"))
    cases.append(Case([line("device", n="ATmega8"), line("device", n="ATmega16"), instr("nop")], tag="second-device"))
    cases.append(Case([line("device", n="ATmega8"), line("device", n="ATmega8"), instr("nop")], tag="second-device"))
    cases.append(Case([instr("nop"), line("device", n="ATmega8"), instr("nop")], tag="device-after-code"))
    chipA = [line("macro", n="chipa"), line("device", n="ATtiny13"), line("endm")]
    chipB = [line("macro", n="chipb"), line("device", n="ATmega128"), line("endm")]
    cases.append(Case(chipA + [line("device", n="ATmega128"), call("chipa"), org(0x300), instr("nop")], tag="second-device", mat=False))
    cases.append(Case(chipA + [call("chipa"), line("device", n="ATmega128"), org(0x300), instr("nop")], tag="second-device", mat=False))
    cases.append(Case(chipA + chipB + [call("chipa"), call("chipb"), org(0x300), instr("nop")], tag="second-device", mat=False))
    cases.append(Case(chipA + [call("chipa"), call("chipa"), instr("nop")], tag="second-device"))
    for text in ('.device "ATtiny13"', ".device 42", ".device ATmega48+1", ".device ATmega48, ATmega88", ".device ATmega48 ATmega88", ".device", ".device (ATmega8)"):
        cases.append(Case([line("garbage", text=text), org(0x3000), instr("nop")], tag="device-malformed", mat=False))
    for name in sorted(devices):
        cases.append(Case([line("device", n=name), instr("nop"), seg("data"), byte(0)], tag="sizes"))
        d = devices[name]
        # the selection made by a macro body (part files are often wrapped like that) counts like any other
        cases.append(Case([line("macro", n="chip"), line("device", n=name), line("endm"), call("chip"), instr("nop"), seg("data"), byte(0)], tag="device-in-macro"))
        cases.append(Case([line("macro", n="chip"), line("device", n=name), line("endm"), call("chip"), org(d["flash"] - 1), instr("nop"), instr("nop")],
                          tag="device-in-macro", mat=False))
        cases.append(Case([line("if", e=lit(1)), line("device", n=name), line("endif"), org(d["flash"] - 1), instr("nop")], tag="device-in-branch", mat=False))
    return run_cases(prop, tier, seed, cases, devices, keyf=default_key, exhaustive=True, extra=[partfile_check(devices), pipeline_extra(sample=800, seed=seed)],
                     rule="every device of the table (and none) x {flash, EEPROM, RAM} x {capacity-1, capacity, capacity+1} reached by "
                          "instructions, data, reservations and .org; unknown device; second device; reported sizes for every device; "
                          "every shipped part-definition file with a table row x the memory figures it declares")


PART_EQU = __import__("re").compile(r"^\s*\.equ\s+(\w+)\s*=\s*(0x[0-9a-fA-F]+|\$[0-9a-fA-F]+|\d+)", __import__("re").I)
PART_DEV = __import__("re").compile(r"^\s*\.device\s+(\w+)", __import__("re").I)


def scan_part_files():
    """Independent scanner of the shipped part-definition files: a regular expression over
    `.equ NAME = value` and `.device NAME` (the files are not run through the assembler)."""
    import glob
    out = {}
    for path in sorted(glob.glob(os.path.join(REPO, "includes", "*def.inc"))):
        name, eq = None, {}
        with open(path, encoding="latin-1") as f:
            for ln in f:
                m = PART_DEV.match(ln)
                if m:
                    name = m.group(1)
                m = PART_EQU.match(ln)
                if m and m.group(1).upper() == "FLASHEND" and "word" not in ln.lower():
                    continue    # the unit of FLASHEND is only taken from a file that states it ("Note: Word address")
                if m:
                    v = m.group(2)
                    eq.setdefault(m.group(1).upper(), int(v[2:], 16) if v.lower().startswith("0x") else int(v[1:], 16) if v.startswith("$") else int(v))
        if not name:
            continue
        fig, has = {"flash": 0, "ramstart": 0, "ramsize": 0, "eeprom": 0}, []
        if "FLASHEND" in eq:
            fig["flash"] = eq["FLASHEND"] + 1
            has.append("flash")
        if "SRAM_START" in eq:
            fig["ramstart"] = eq["SRAM_START"]
            has.append("ramstart")
        if "SRAM_SIZE" in eq:
            fig["ramsize"] = eq["SRAM_SIZE"]
            has.append("ramsize")
        if "E2END" in eq:
            fig["eeprom"] = eq["E2END"] + 1 if eq["E2END"] > 0 else 0
            has.append("eeprom")
        out[name] = (os.path.basename(path), fig, has)
    return out


def partfile_check(devices):
    def run(v, scratch, cases=None):
        parts = scan_part_files()
        events, names = [], []
        for name, (fname, fig, has) in sorted(parts.items()):
            if name in devices:
                d = devices[name]
                events.append({"name": name, "row": {k: d[k] for k in ("flash", "ramstart", "ramsize", "eeprom")}, "file": fig, "has": has})
                names.append((name, fname))
        can = [dict(events[0], file=dict(events[0]["file"], flash=events[0]["file"]["flash"] + 1))]
        rejected, stats = validate_events(events + can, "Trace_Dev", scratch)
        if len(events) not in rejected:
            raise ToolError("binding self-test failed: a corrupted part-file figure was accepted")
        for i in sorted(rejected):
            if i < len(events):
                e = events[i]
                v.reject({"tag": "part-file", "source": ".device %s ; %s" % names[i], "prog": [], "observed": {"r": "row", "row": e["row"]},
                          "expected": {"ok": False, "phase": "part-file", "file": e["file"], "declares": e["has"]}}, None)
        return {"part_files_scanned": len(parts), "part_files_with_a_table_row": len(events),
                "part_file_figures_compared": sum(len(e["has"]) for e in events),
                "part_file_rows_disagreeing": len([i for i in rejected if i < len(events)])}, stats
    return run


CHECKS["C12"] = check_c12


# ========================================================================================
# C09 -- macros

LEVEL_OPS = ["*", "+", "<<", "<", "==", "&", "^", "|", "&&", "||", "-", "/"]


def macro_bodies():
    """(name, parameter kinds, body lines).  Parameter kinds: r register, e expression, x index form."""
    out = []
    out.append(("incr", "r", [instr("inc", ARG(0))]))
    out.append(("twice", "r", [instr("mov", ARG(0), ARG(0)), instr("dec", ARG(0))]))
    for op in LEVEL_OPS:
        out.append(("calc", "re", [instr("ldi", ARG(0), E(binop("&", par(binop(op, arg(1), lit(2))), lit(255))))]))
        out.append(("calc", "re", [instr("ldi", ARG(0), E(binop("&", par(binop(op, lit(9), arg(1))), lit(255))))]))
    out.append(("bytes", "e", [data(1, ARG(0), E(binop("+", arg(0), lit(1))))]))
    out.append(("words", "ee", [data(2, E(binop("*", arg(0), arg(1))), ARG(1))]))
    out.append(("load", "x", [instr("ldd", R(0), ARG(0)), instr("std", ARG(0), R(1))]))
    out.append(("loadx", "x", [instr("ld", R(2), ARG(0))]))
    out.append(("cond", "e", [line("if", e=binop(">", arg(0), lit(3))), instr("ldi", R(16), E(1)), line("else"), instr("ldi", R(16), E(2)),
                              line("endif"), instr("nop")]))
    out.append(("condel", "ee", [line("if", e=binop("==", arg(0), lit(1))), data(1, E(0x11)), line("elif", e=binop("==", arg(1), lit(1))), data(1, E(0x22)),
                                 line("else"), data(1, E(0x33)), line("endif")]))
    out.append(("outer", "re", [call("calc", ARG(0), E(binop("+", arg(1), lit(1)))), call("incr", ARG(0))]))
    out.append(("swapargs", "er", [call("calc", ARG(1), ARG(0))]))
    out.append(("ramvar", "e", [instr("ldi", R(16), E(1)), seg("data"), byte(arg(0)), seg("code"), instr("ldi", R(17), E(2))]))
    out.append(("eevar", "e", [instr("ldi", R(18), E(3)), seg("eeprom"), data(1, ARG(0)), seg("code"), instr("ldi", R(19), E(4))]))
    out.append(("noargs", "", [instr("nop"), instr("ret")]))
    out.append(("vector", "e", [org(binop("+", arg(0), lit(0x10))), instr("rjmp", E(binop("+", sym("pc"), lit(2)))), instr("reti")]))
    out.append(("vectorlit", "r", [org(0x30), instr("inc", ARG(0))]))
    out.append(("midorg", "e", [instr("nop"), org(binop("+", arg(0), lit(0x40))), instr("ret"), data(2, E(sym("pc")))]))
    out.append(("eefirst", "e", [seg("eeprom"), data(1, ARG(0), E(2), E(3)), seg("code"), instr("nop")]))
    out.append(("eeonly", "e", [seg("eeprom"), data(2, ARG(0)), byte(1)]))          # ends in the EEPROM segment: known finding
    out.append(("ramfirst", "e", [seg("data"), byte(arg(0)), seg("code")]))
    out.append(("eelast", "e", [instr("nop"), seg("eeprom"), data(1, ARG(0)), seg("code")]))        # returns to code with nothing after: the caller goes on in code
    out.append(("eeonlyback", "e", [seg("eeprom"), data(2, ARG(0)), seg("code")]))
    out.append(("ramlast", "e", [instr("nop"), seg("data"), byte(arg(0)), seg("code")]))
    out.append(("ten", "rrreeeeeee", [instr("mov", ARG(0), ARG(1)), instr("ldi", ARG(2), E(binop("&", arg(9), lit(255)))),
                                      data(1, ARG(3), ARG(4), ARG(5), ARG(6), ARG(7), ARG(8), ARG(9))]))
    out.append(("tenfwd", "rrreeeeeee", [call("ten", ARG(2), ARG(1), ARG(0), ARG(9), ARG(8), ARG(7), ARG(6), ARG(5), ARG(4), ARG(3))]))
    out.append(("third", "eee", [data(1, ARG(2), ARG(0))]))
    # bodies are kept as written: letters of strings and character constants, names of conditional symbols
    out.append(("text", "e", [data(1, S("Hello, World"), E(chrlit(ord("A"))), ARG(0), S("MiXeD cAsE"), E(chrlit(ord("z"))))]))
    out.append(("textsemi", "e", [data(1, S("a;b // c /* d"), E(chrlit(ord(";"))), ARG(0), S(";")), instr("cpi", R(16), E(chrlit(ord(";"))))]))
    out.append(("textr", "r", [instr("ldi", ARG(0), E(chrlit(ord("Q")))), instr("cpi", ARG(0), E(binop("+", chrlit(ord("a")), lit(1))))]))
    out.append(("flagged", "e", [line("ifdef", n="DeBug"), data(1, ARG(0)), line("else"), data(1, E(0x77)), line("endif"),
                                 line("ifndef", n="RELEASE"), data(1, E(0x55)), line("endif")]))
    # a body whose effect depends on what earlier expansions did: each expansion is read anew
    out.append(("once", "", [line("ifndef", n="DONE_ONCE"), line("define", n="DONE_ONCE"), instr("ldi", R(16), E(1)), line("else"),
                             instr("ldi", R(17), E(2)), line("endif")]))
    out.append(("oncearg", "r", [line("ifndef", n="DONE_ARG"), line("define", n="DONE_ARG"), instr("inc", ARG(0)), line("else"),
                                 instr("dec", ARG(0)), line("endif")]))
    out.append(("counted", "", [instr("nop"), data(2, E(sym("pc")))]))
    # bodies that only change symbols: they leave no code, but they happen
    out.append(("bump", "", [setv("cnt", binop("+", sym("cnt"), lit(1)))]))
    out.append(("rebind", "r", [undef("tmpreg"), defr("tmpreg", 18), instr("nop")]))
    out.append(("release", "", [undef("tmpreg")]))
    # bodies for calls written in the data / EEPROM segment
    out.append(("dvar", "e", [byte(arg(0)), byte(1)]))
    out.append(("dvars", "ee", [call("dvar", ARG(0)), call("dvar", ARG(1))]))
    out.append(("evar", "e", [data(1, ARG(0), E(binop("+", arg(0), lit(1))))]))
    return out


ALL_BINOPS = ["*", "/", "%", "+", "-", "<<", ">>", "<", "<=", ">", ">=", "==", "!=", "&", "^", "|", "&&", "||"]


def arg_values(kind, rnd):
    if kind == "r":
        return [R(rnd.choice([16, 17, 24, 31, 20, 29]))]
    if kind == "x":
        return [IX("Y", "disp", lit(rnd.randrange(0, 64))), IX("Z", "disp", binop("+", lit(1), lit(2)))]
    if rnd.random() < 0.35:
        # every operator, written out in the argument: the text that reaches the body means what the caller wrote
        op = rnd.choice(ALL_BINOPS)
        a, b = rnd.choice([(3, 3), (5, 2), (2, 5), (6, 3), (7, 7), (1, 0), (0, 1)])
        if op in ("/", "%") and b == 0:
            b = 4
        e = binop(op, lit(a), lit(b))
        return [E(e), E(binop("+", e, lit(1))), E(binop(op, sym("kk"), lit(5))), E(un("-", e)), E(binop(op, lit(a), par(binop("-", lit(b + 2), lit(2)))))]
    return [E(lit(rnd.randrange(0, 9))), E(binop("+", lit(1), lit(2))), E(par(binop("+", lit(1), lit(2)))), E(binop("*", lit(2), lit(3))),
            E(un("-", lit(1))), E(binop("|", binop("<<", lit(1), lit(2)), lit(1))), E(sym("kk")), E(binop("-", lit(7), lit(2))),
            E(binop("==", lit(1), lit(1))), E(un("!", lit(0)))]


def mixed(s):
    return "".join(c.upper() if i % 2 == 0 else c for i, c in enumerate(s))


def mc_macro(tier):
    """Model-checks the macro machinery of the specification itself (MC_Macro) and its broken variant."""
    sc = Scratch("C09-mc")
    try:
        mc = model_check("MC_Macro", sc, cfg="MC_Macro" if tier == "quick" else "MC_Macro_thorough", workers=8, xmx="12g", coverage=False, timeout=3000)
        rb = run_tlc("MC_Macro", cfg="MC_Macro_broken", workdir=sc.dir, timeout=600, workers=2, xmx="2g")
        if "Invariant HandExpanded is violated" not in rb.out:
            raise ToolError("non-vacuity: an expansion that does not keep an argument a unit must violate HandExpanded")
        mc["theorems"] = ("HandExpanded: every program (a macro body of up to 4 lines over {instruction and data using both parameters, .if on a parameter, .ifdef, .else, "
                          ".endif, nested call, segment switches}, up to %d top-level lines before and after the definitions: calls with four argument sets incl. a "
                          "missing argument, .define, plain code) builds to the same result as its purely textual flattening" % (2 if tier == "quick" else 3))
        mc["broken_variant"] = "substituting an argument without keeping it a unit violates HandExpanded after %d states" % rb.distinct
        return mc
    finally:
        sc.cleanup()


def check_c09(prop, tier, seed, devices):
    rnd = random.Random(seed)
    mc = mc_macro(tier)
    bodies = macro_bodies()
    by_name = {}
    for n, k, b in bodies:
        by_name.setdefault(n, []).append((k, b))
    cases = []
    reps = 30 if tier == "quick" else 400

    def definition(name, body, defcase):
        spn = name if defcase == "lower" else mixed(name) if defcase == "mixed" else name.upper()
        return [line("macro", n=name, spn=spn)] + copy.deepcopy(body) + [line("endm", form=rnd.choice([".endm", ".endmacro"]))]

    for name, kinds, body in bodies:
        deps = []
        for l in body:
            if l["k"] == "call":
                k2, b2 = by_name[l["n"]][0]
                deps.append((l["n"], b2))
                for l2 in b2:
                    if l2["k"] == "call":
                        k3, b3 = by_name[l2["n"]][0]
                        deps.append((l2["n"], b3))
        for rep in range(reps):
            defcase = rnd.choice(["lower", "lower", "mixed", "upper"])
            callcase = rnd.choice(["lower", "upper", "mixed"])
            argsets = [[rnd.choice(arg_values(k, rnd)) for k in kinds] for _ in range(rnd.randrange(1, 4))]
            calls = []
            for a in argsets:
                spn = name if callcase == "lower" else name.upper() if callcase == "upper" else mixed(name)
                c = call(name, *copy.deepcopy(a))
                c["spn"] = spn
                calls.append(c)
            defs = []
            seen = set()
            for dn, db in [(name, body)] + deps:
                if dn not in seen:
                    seen.add(dn)
                    defs += definition(dn, db, defcase if dn == name else "lower")
            placement = rnd.choice(["after-def", "before-def", "both", "after-org", "after-seg", "after-code-org"])
            # an .org directly followed by another .org or by a segment switch is a shape the properties leave open
            # (C02 excludes it as well): a body that starts with one is not called right after an .org
            if placement == "after-org" and body[0]["k"] in ("org", "seg"):
                placement = "after-seg"
            # the same origin cannot be used twice: bodies with a fixed .org are called once
            if any(l["k"] == "org" for l in body):
                argsets = argsets[:1]
                calls = calls[:1]
            head = [equ("kk", 5)]
            if name == "bump":
                head += [setv("cnt", 0)]
                calls = [copy.deepcopy(c) for c in (calls * 3)[:1 + rep % 4]]
            if name in ("rebind", "release"):
                head += [defr("tmpreg", 17)]
                calls = calls[:1]
            if name == "flagged":
                head += [line("define", n="DeBug")] if rep % 2 == 0 else [line("define", n="RELEASE")]
            if name in ("once", "oncearg", "counted"):
                calls = [copy.deepcopy(c) for c in (calls * 3)[:2 + rep % 3]]
            if name in ("dvar", "dvars", "evar"):
                segname = "eeprom" if name == "evar" else "data"
                first = byte(1, lab="s0") if segname == "data" else data(1, E(0x5a), lab="s0")
                last = byte(2, lab="s1") if segname == "data" else data(1, E(0xa5), lab="s1")
                body_defs = defs if placement != "before-def" else []
                prog = head + body_defs + [instr("nop"), seg(segname), first] + calls + [last, seg("code"), data(2, E(sym("s0")), E(sym("s1"))), instr("ret")] + \
                    (defs if placement == "before-def" else [])
            elif placement == "after-code-org":
                prog = head + defs + [org(0x100), instr("nop")] + calls + [instr("ret")]
            elif placement == "after-def":
                prog = head + defs + [instr("nop")] + calls + [instr("ret")]
            elif placement == "before-def":
                prog = head + calls + [instr("ret")] + defs
            elif placement == "both":
                prog = head + calls[:1] + defs + calls[1:] + [instr("sei")]
            elif placement == "after-org":
                prog = head + defs + [instr("nop"), org(0x20)] + calls + [instr("ret")]
            else:
                prog = head + defs + [instr("nop"), seg("data"), byte(2), seg("code")] + calls + [instr("ret")]
            if name in ("eelast", "eeonlyback", "ramlast", "eefirst", "ramfirst"):
                prog = prog + [data(1, E(0x42), E(0x43)), instr("sleep")]
            if name == "bump":
                prog = prog + [instr("ldi", R(20), E(sym("cnt"))), data(1, E(sym("cnt")), E(0))]
            if name in ("rebind", "release"):
                # what the alias names after the call: the new register, or nothing any more
                prog = prog + [instr("inc", E(sym("tmpreg")))]
            cases.append(Case(prog, tag="macro." + name))
            # variants: a missing argument, an undefined macro
            # (a parameter that only occurs in an unselected branch or in a condition reached while skipping is a corner
            # the property does not settle: missing-argument variants are generated for bodies without conditionals)
            if kinds and rep % 3 == 0 and not any(l["k"] in ("if", "elif") for l in body):
                short = copy.deepcopy(prog)
                for l in short:
                    if l["k"] == "call" and l["n"] == name:
                        l["args"] = l["args"][:-1]
                cases.append(Case(short, tag="macro.missing-arg"))
            if rep % 4 == 0:
                und = [l for l in copy.deepcopy(prog)]
                und.append(call("nosuchmacro", R(1)))
                cases.append(Case(und, tag="macro.undefined"))
    # a long sum / a long mixed chain as an argument reaches the body as it would be read on a plain line
    for nterms in (40, 64, 65, 70, 100):
        e = lit(1)
        for i in range(nterms - 1):
            e = binop(("+", "-", "+", "|")[i % 4] if nterms == 100 else "+", e, lit(1 + i % 3))
        cases.append(Case([line("macro", n="sum"), instr("ldi", R(16), E(binop("&", arg(0), lit(255)))), data(2, E(binop("&", binop("*", arg(0), lit(3)), lit(0xffff)))), line("endm"),
                           call("sum", E(e)), instr("ldi", R(17), E(binop("&", copy.deepcopy(e), lit(255))))], tag="long-argument"))
    # many calls in one build, flat and nested (any number of times)
    for ncalls in (63, 64, 65, 100, 300):
        cases.append(Case([line("macro", n="one"), instr("inc", ARG(0)), line("endm")] + [call("one", R(16 + i % 16)) for i in range(ncalls)], tag="many-calls"))
    cases.append(Case([line("macro", n="leaf"), instr("dec", ARG(0)), line("endm"), line("macro", n="pair"), call("leaf", ARG(0)), call("leaf", ARG(0)), line("endm")] +
                      [call("pair", R(16 + i % 8)) for i in range(40)], tag="many-calls"))
    # a symbol spelled like a register is an expression when the caller puts it in parentheses ("parentheses included"):
    # the body must see the expression, not the register
    for nme in ("x", "y", "z", "r5", "r16", "r31", "X", "R7"):
        for wrap in (lambda e: par(e), lambda e: un("-", par(e)), lambda e: par(par(e)), lambda e: un("~", par(e)), lambda e: binop("+", par(e), lit(1))):
            body = [instr("ldi", R(16), E(fn("low", arg(0)))), data(2, ARG(0))]
            cases.append(Case([equ(nme, 5), line("macro", n="take")] + copy.deepcopy(body) + [line("endm"), call("take", E(wrap(sym(nme)))), instr("ret")], tag="macro.paren-name"))
            cases.append(Case([equ(nme, 5), line("macro", n="take"), instr("ldi", R(17), ARG(0)), line("endm"), call("take", E(wrap(sym(nme)))), instr("ret")], tag="macro.paren-name"))
            cases.append(Case([equ(nme, 5), line("macro", n="inner"), instr("subi", R(18), ARG(0)), line("endm"), line("macro", n="outer"), call("inner", ARG(0)), line("endm"),
                               call("outer", E(wrap(sym(nme)))), instr("ret")], tag="macro.paren-name"))
    return run_cases(prop, tier, seed, cases, devices, keyf=default_key, mc=mc, extra=[pipeline_extra(sample=1500 if tier == "quick" else 15000, seed=seed)],
                     rule="%d macro bodies (register, repeated, one operator of every precedence level on either side of the parameter, data, "
                          "index forms, conditionals on parameters, nested calls with permuted parameters, bodies switching to the data and EEPROM "
                          "segment) x seeded argument sets (registers, index forms, literals, a+b, (a+b), a*b, -a, a<<b|c, symbols) x placement "
                          "(after / before the definition, both, after .org, after a segment round trip) x letter case of definition and call; "
                          "plus missing-argument and undefined-macro variants" % len(bodies),
                     assumptions=["labels inside bodies called twice, macros defined inside bodies, unbounded recursion are not generated"])


CHECKS["C09"] = check_c09


# ========================================================================================
# C14 -- surface syntax

def line_kind_programs():
    """One minimal-context program per line kind; the interesting line is marked by index."""
    k1 = equ("k1", 0x41)
    P = []
    P.append(("instr.none", [instr("nop"), instr("ret")]))
    P.append(("instr.r", [instr("inc", R(17))]))
    P.append(("instr.rr", [instr("add", R(3), R(29))]))
    P.append(("instr.rk", [k1, instr("ldi", R(16), E(fn("low", binop("+", sym("k1"), lit(0x112)))))]))
    P.append(("instr.rk2", [k1, instr("subi", R(20), E(binop("&", binop("<<", sym("k1"), lit(1)), lit(0xf0))))]))
    P.append(("instr.neg", [instr("ldi", R(16), E(un("-", lit(3))))]))
    chain = lit(1)
    for i in range(127):
        chain = binop(("+", "/", "*", "-")[i % 4], chain, lit(1))
    sub = chrlit(ord("z"))
    for i in range(69):
        sub = binop("-", sub, chrlit(ord("a") + i % 3))
    P.append(("instr.chrchain", [data(8, E(sub)), instr("ldi", R(16), E(binop("&", par(copy.deepcopy(sub)), lit(255))))]))
    P.append(("instr.chain", [instr("ldi", R(16), E(binop("&", chain, lit(255)))), data(2, E(binop("&", copy.deepcopy(chain), lit(0x7fff))))]))     # as many operators as a line may have
    P.append(("instr.par", [k1, instr("ldi", R(16), E(binop("*", binop("+", sym("k1"), lit(1)), lit(2)))), instr("ldi", R(17), E(par(par(lit(0x21))))),
                            instr("cpi", R(18), E(fn("high", fn("lwrd", binop("-", lit(0x12345), par(sym("k1")))))))]))
    P.append(("dir.par", [k1, data(2, E(binop("*", binop("+", lit(1), lit(2)), lit(3))), E(fn("low", lit(0x105)))), line("if", e=par(binop("==", sym("k1"), lit(0x41)))),
                          data(1, E(un("-", par(lit(2))))), line("endif"), equ("pp", par(binop("<<", lit(1), par(lit(3))))), setv("qq", binop("-", lit(9), binop("-", lit(4), lit(1)))),
                          data(1, E(sym("pp")), E(sym("qq")))]))
    P.append(("instr.ldd", [instr("ldd", R(4), IX("Y", "disp", lit(17)))]))
    P.append(("instr.std", [instr("std", IX("Z", "disp", binop("+", lit(3), lit(4))), R(5))]))
    P.append(("instr.ld", [instr("ld", R(6), IX("X", "inc")), instr("st", IX("Y", "dec"), R(7)), instr("ld", R(8), IX("Z", "none"))]))
    P.append(("instr.lpm", [instr("lpm", R(9), IX("Z", "inc")), instr("lpm")]))
    P.append(("instr.lds", [instr("lds", R(10), E(0x123)), instr("sts", E(0x60), R(11))]))
    P.append(("instr.io", [instr("in", R(12), E(0x3f)), instr("out", E(0x15), R(13)), instr("sbi", E(0x18), E(7))]))
    P.append(("instr.br", [instr("nop", lab="top"), instr("brne", E(sym("top"))), instr("rjmp", E(sym("fwd"))), instr("nop"), label("fwd"), instr("rcall", E(sym("top")))]))
    P.append(("instr.jmp", [instr("jmp", E(0x12345)), instr("call", E(sym("there"))), instr("ret", lab="there")]))
    P.append(("instr.pc", [instr("rjmp", E(binop("+", sym("pc"), lit(2)))), instr("nop"), instr("nop")]))
    P.append(("instr.alias", [defr("tmp", 18), instr("mov", E(sym("tmp")), R(1)), undef("tmp")]))
    P.append(("label.only", [label("alone"), instr("nop"), data(2, E(sym("alone")))]))
    P.append(("label.instr", [instr("nop"), instr("sei", lab="both"), data(2, E(sym("both")))]))
    P.append(("dir.db", [k1, data(1, E(1), S("hi there"), E(sym("k1")), E(0xfe))]))
    P.append(("dir.dbodd", [data(1, S("odd")), data(1, E(9))]))
    P.append(("dir.dw", [k1, data(2, E(0x1234), E(binop("*", sym("k1"), lit(3))))]))
    P.append(("dir.dd", [data(4, E(0x12345678), E(un("-", lit(2))))]))
    P.append(("dir.dq", [data(8, E(0x1122334455667788))]))
    P.append(("dir.byte", [seg("data"), byte(3, lab="v1"), byte(lit(0x10), lab="v2"), seg("code"), instr("lds", R(16), E(sym("v2")))]))
    P.append(("dir.eseg", [seg("eeprom"), data(1, E(1), E(2), lab="e1"), byte(2), data(2, E(0xbeef)), seg("code"), instr("ldi", R(16), E(sym("e1")))]))
    P.append(("dir.org", [instr("nop"), org(0x10), instr("nop", lab="at"), data(2, E(sym("at")))]))
    P.append(("dir.equ", [equ("aa", 0x20), equ("bb", binop("+", sym("aa"), lit(0x11))), instr("ldi", R(16), E(sym("bb")))]))
    P.append(("dir.set", [setv("cc", 5), setv("cc", binop("+", sym("cc"), lit(0x0a))), instr("ldi", R(16), E(sym("cc")))]))
    P.append(("dir.if", [k1, line("if", e=binop("==", sym("k1"), lit(0x41))), instr("ldi", R(16), E(1)), line("elif", e=lit(1)), instr("ldi", R(16), E(2)),
                          line("else"), instr("ldi", R(16), E(3)), line("endif")]))
    P.append(("dir.if0", [line("if", e=binop(">", lit(2), lit(0x10))), line("garbage", text="not ( assembly"), line("else"), instr("ldi", R(16), E(3)), line("endif")]))
    P.append(("dir.ifdef", [line("define", n="FLAG"), line("ifdef", n="FLAG"), instr("nop"), line("endif"), line("ifndef", n="FLAG"), instr("ret"), line("endif")]))
    P.append(("dir.macro", [line("macro", n="mm"), instr("ldi", ARG(0), E(binop("+", arg(1), lit(1)))), line("endm"), call("mm", R(16), E(0x10)), call("mm", R(17), E(binop("*", lit(2), lit(3))))]))
    P.append(("dir.noop", [line("noop", text=".pragma option use core v1"), instr("ldi", R(16), E(1)), line("noop", text="#pragma AVRPART ADMIN PART_NAME ATmega8"),
                           line("noop", text=".pragma"), instr("ret"), line("noop", text="#pragma partinc 0")]))
    P.append(("dir.message", [line("message", txt="hello msg"), instr("nop"), line("warning", txt="warn msg")]))
    P.append(("dir.device", [line("device", n="ATmega48"), seg("data"), byte(2, lab="v"), seg("code"), instr("lds", R(16), E(sym("v")))]))
    P.append(("dir.device20", [line("device", n="ATtiny20"), instr("lds", R(16), E(0x45)), instr("rjmp", E(0))]))
    return P


def all_spells():
    out = []
    for case in ("lower", "upper", "mixed"):
        for ws in range(4):
            for comment in ("", ";", "//", "/*"):
                for eol in ("\n", "\r\n"):
                    for radix in ("dec", "0x", "$", "0b", "oct"):
                        for blank in range(3):
                            out.append(dict(case=case, ws=ws, comment=comment, eol=eol, radix=radix, blank_before=blank))
    return out


def check_c14(prop, tier, seed, devices):
    rnd = random.Random(seed)
    cases = []
    spells = all_spells()
    for tag, prog in line_kind_programs():
        texts = [l["txt"] for l in prog if l["k"] in ("message", "warning")]
        for sp in spells:
            p = copy.deepcopy(prog)
            cases.append(Case(p, tag=tag, spell=Spell(**sp), msg_texts=texts))
    # multi-line programs from the other generators with an independent seeded descriptor per line
    pool = []
    pool += [c.prog for c in gen_layout_random(rnd, 300 if tier == "quick" else 3000, C02_DEVS)]
    for _ in range(300 if tier == "quick" else 3000):
        pool.append(sym_program(rnd, rnd.randrange(4, 11)))
    structs = [s for n in range(3, 7) for s in cond_structures(n, 3) if any(isinstance(x, tuple) for x in s)]
    for _ in range(300 if tier == "quick" else 3000):
        st = rnd.choice(structs)
        prog = cond_program(st, lambda i, o, r=rnd: r.choice(o))
        pool.append(prog)
    nvar = 4 if tier == "quick" else 12
    for prog in pool:
        if has_unevaluable_size(prog):
            continue
        texts = [l["txt"] for l in prog if l["k"] in ("message", "warning")]
        for _ in range(nvar):
            p = copy.deepcopy(prog)
            sps = [Spell(**rnd.choice(spells)) for _ in p]
            eol = rnd.choice(["\n", "\r\n"])
            for s_ in sps:
                s_.eol = eol if rnd.random() < 0.9 else rnd.choice(["\n", "\r\n"])
            cases.append(Case(p, tag="multi", spells=sps, msg_texts=texts))
    return run_cases(prop, tier, seed, cases, devices, keyf=default_key, dedupe=True,
                     rule="full factorial of 1440 spelling descriptors (letter case x whitespace pattern x comment style x line end x radix x "
                          "blank/comment-only lines before) on %d minimal-context programs, one per line kind; plus multi-line programs from the "
                          "layout, symbol and conditional generators with an independent seeded descriptor per line (%d variants each); every "
                          "variant must give the specification's result for the abstract program, hence all variants agree" % (len(line_kind_programs()), nvar),
                     assumptions=["letter case of directive names, device names, .define flags and radix prefixes, spaces inside index operands "
                                  "and after unary operators, lone CR are not varied (the statement does not list them)"])


CHECKS["C14"] = check_c14
