#!/bin/sh
# try_seed.sh <patch.diff> <check ids...> : apply a seeded change to /repo, run the checks, undo it.
# Prints one line per check: the verdict lines of the check (OK / VIOLATION / KNOWN-FINDING / TOOL ERROR).
P="$1"; shift
cd /repo || exit 2
git diff --quiet || { echo "repo not clean"; exit 2; }
git apply "$P" || { echo "patch does not apply"; exit 2; }
for c in "$@"; do
  out=$(cd /verif && timeout 1200 ./check "$c" --tier "${TIER:-quick}" 2>&1); rc=$?
  echo "[$c rc=$rc] $(echo "$out" | grep -E '^(OK|VIOLATION|TOOL ERROR)' | cut -c1-120)"
  echo "$out" | grep -E "^  rejected" | head -8
done
git -C /repo checkout -- . ; git -C /repo status --short | head -3
