"""Entry point of every registered check:  ./check <id> [--tier quick|thorough]
exit 0: property held on everything explored (KNOWN-FINDING lines possible)
exit 1: a line `VIOLATION property=<id> replay=<path>` was printed
exit 2: tool error (build failure, TLC failure, time-out) -- never a verdict"""
import argparse
import importlib
import os
import sys
import traceback

sys.path.insert(0, os.path.dirname(os.path.abspath(__file__)))
from common import ToolError, log  # noqa: E402

MODULES = {
    "C01": "isa", "C04": "isa", "C13": "isa",
    "C05": "exprs", "C11": "files", "C07": "hexfiles", "C18": "cli", "C16": "hostile", "C17": "sessions",
    "C02": "asm", "C03": "asm", "C06": "asm", "C08": "asm", "C09": "asm", "C10": "asm", "C12": "asm", "C14": "asm", "C15": "asm",
}


def main():
    ap = argparse.ArgumentParser()
    ap.add_argument("prop")
    ap.add_argument("--tier", default=os.environ.get("VERIF_TIER", "quick"), choices=["quick", "thorough"])
    ap.add_argument("--seed", type=int, default=int(os.environ.get("VERIF_SEED", "0") or 0))
    ap.add_argument("--replay")
    a = ap.parse_args()
    if a.prop not in MODULES:
        log("no check for %s" % a.prop)
        return 2
    mod = importlib.import_module(MODULES[a.prop])
    try:
        if a.replay:
            # a replay file records the tier and seed of the run that produced it: the same run is repeated
            # (generation is deterministic in tier and seed) and reports the same cases if they still fail
            import json
            with open(a.replay) as f:
                r = json.load(f)
            return mod.check(a.prop, r.get("tier", a.tier), int(r.get("seed", a.seed)))
        return mod.check(a.prop, a.tier, a.seed)
    except ToolError as e:
        log("TOOL ERROR: %s" % e)
        return 2
    except Exception:
        traceback.print_exc()
        return 2


if __name__ == "__main__":
    sys.exit(main())
