"""C05: constant expressions.  Trees are generated (operator grid on boundary operands, all small
shapes, seeded random deep trees), rendered with exactly the parentheses the operator table
requires, evaluated by the real code through `.dq <expr>`, and judged by TLC (Trace_Expr) against
Expr!Eval on exact integers."""
import copy
import itertools
import random

from common import *
from prog import *
import isa as isamod

BINOPS = ["*", "/", "%", "+", "-", "<<", ">>", "<", "<=", ">", ">=", "==", "!=", "&", "^", "|", "&&", "||"]
UNOPS = ["-", "!", "~"]
FUNCS = ["low", "high", "byte2", "byte3", "byte4", "lwrd", "hwrd", "exp2"]

MAXI = (1 << 63) - 1


def leaf(v):
    """AST of an integer written with literals only."""
    if v >= 0:
        return num(v)
    if v == -(1 << 63):
        return binop("-", un("-", num(MAXI)), num(1))
    return un("-", num(-v))


def grid_values():
    vs = {0, 1, -1, 2, -2, MAXI, -(1 << 63)}
    for k in (7, 8, 15, 16, 31, 32, 62):
        vs |= {1 << k, (1 << k) - 1, (1 << k) + 1}
    vs |= {-(1 << 31), -(1 << 32) - 1, 63, 64, -255}
    return sorted(vs)


class ExprCase:
    def __init__(self, ast, equs=None, nlabel=0, spell=None, tag="", via_macro=False, via="dq", twin=None):
        self.ast, self.equs, self.nlabel, self.tag, self.via = ast, equs or {}, nlabel, tag, via
        self.skip = 8 if twin is not None else 0
        self.spell = spell or Spell()
        lines = [equ(n, e) for n, e in self.equs.items()]
        # labels l1..ln on consecutive nops: label li has value i-1
        lines += [instr("nop", lab="l%d" % (i + 1)) for i in range(nlabel)]
        if twin is not None and via_macro:
            lines += [line("macro", n="put"), data(8, ARG(0)), line("endm"), call("put", E(twin)), call("put", E(ast))]
            via = "done"
        elif twin is not None:
            # a line before it that reads almost the same and means something else: 8 bytes of its own
            lines.append(data(8, E(twin)))
        if via == "byte":
            # the expression is the size of a reservation: the RAM usage reported is its value
            lines += [seg("data"), byte(ast), seg("code"), instr("nop")]
        elif via == "org":
            # the expression is an origin: the image ends one word behind it
            lines += [org(ast), instr("nop")]
        elif via == "done":
            pass
        elif via_macro:
            # the expression reaches the data directive as a macro argument: it means there what it means here
            lines += [line("macro", n="put"), data(8, ARG(0)), line("endm"), call("put", E(ast))]
        else:
            lines.append(data(8, E(ast)))
        self.prog = lines
        self.pc = nlabel
        self.src = render(lines, spell=self.spell)
        self.labels = {"l%d" % (i + 1): i for i in range(nlabel)}


def shapes(tier):
    """Every tree of depth <= 2 over the operators with small leaves."""
    out = []
    lv = [1, 2, 3, 7]
    k = 0
    for o1 in BINOPS:
        for o2 in BINOPS:
            for form in (0, 1):
                for rep in range(2 if tier == "quick" else 5):
                    a, b, c = (lv[(k + i * (rep + 1)) % 4] for i in range(3))
                    k += 1
                    t = binop(o1, binop(o2, num(a), num(b)), num(c)) if form == 0 else binop(o1, num(a), binop(o2, num(b), num(c)))
                    out.append(ExprCase(t, tag="shape.bin-bin"))
                    if rep == 0:
                        out.append(ExprCase(copy.deepcopy(t), tag="shape.bin-bin-macro", via_macro=True))
    for u in UNOPS:
        for o in BINOPS:
            for a, b in ((1, 2), (0, 5), (7, 3)):
                out.append(ExprCase(binop(o, un(u, num(a)), num(b)), tag="shape.un-left"))
                out.append(ExprCase(binop(o, num(a), un(u, num(b))), tag="shape.un-right"))
                out.append(ExprCase(un(u, binop(o, num(a), num(b))), tag="shape.un-over"))
                out.append(ExprCase(binop(o, num(a), un(u, num(b))), tag="shape.un-macro", via_macro=True))
        for u2 in UNOPS:
            for a in (0, 1, 6):
                out.append(ExprCase(un(u, un(u2, num(a))), tag="shape.un-un"))
    for f in FUNCS:
        for o in BINOPS:
            out.append(ExprCase(binop(o, fn(f, num(0x1234)), num(3)), tag="shape.fn"))
            out.append(ExprCase(fn(f, binop(o, num(5), num(3))), tag="shape.fn"))
    return out


def spelled(rnd, tier):
    """Leaves in every radix, as .equ symbols and as labels, names in every letter case."""
    out = []
    for radix in ("dec", "0x", "$", "0b", "oct", "chr"):
        for case in ("lower", "upper", "mixed"):
            for o in BINOPS:
                a, b = rnd.choice([(65, 3), (126, 7), (48, 2), (90, 5)])
                sp = Spell(case=case, radix=radix, ws=rnd.randrange(4))
                out.append(ExprCase(binop(o, num(a), num(b)), spell=sp, tag="radix"))
                out.append(ExprCase(binop(o, sym("k1"), binop("+", sym("l3"), sym("k2"))), equs={"k1": num(a), "k2": binop("*", sym("k1"), num(2))},
                                    nlabel=4, spell=sp, tag="symbols"))
            for f in FUNCS:
                sp = Spell(case=case, radix=radix)
                out.append(ExprCase(fn(f, binop("+", sym("k1"), num(0x10203))), equs={"k1": num(0x7040)}, spell=sp, tag="symbols"))
    return out


def chains():
    """Names defined through other names (two to five levels, defined before or after), used more than once in one expression."""
    out = []
    eq = {"ca": binop("+", num(1), num(1)), "cb": binop("*", sym("ca"), num(2)), "cc": binop("+", num(10), sym("cb")),
          "cd": binop("-", sym("cc"), sym("ca")), "ce": binop("^", sym("cd"), binop("<<", sym("cb"), num(4)))}
    names = list(eq)
    for i, a in enumerate(names):
        for b in names[:i + 1]:
            for o in BINOPS:
                out.append(ExprCase(binop(o, sym(a), sym(b)), equs=eq, tag="chains"))
                out.append(ExprCase(binop(o, sym(b), binop("+", sym(a), sym(a))), equs=eq, tag="chains"))
        for u in UNOPS:
            out.append(ExprCase(binop("+", un(u, sym(a)), sym(a)), equs=eq, tag="chains"))
        for f in FUNCS:
            out.append(ExprCase(binop("|", fn(f, sym(a)), binop("<<", sym(a), num(8))), equs=eq, tag="chains"))
    for case in ("upper", "mixed"):
        for a in names:
            out.append(ExprCase(binop("+", binop("*", sym(a), sym(a)), sym("cb")), equs=eq, spell=Spell(case=case), tag="chains"))
    # names that begin like registers, index registers or functions
    for nme in ("xval", "ypos", "zed", "x2", "rate", "r3d", "lowest", "highway", "pcx"):
        for u in UNOPS:
            out.append(ExprCase(un(u, sym(nme)), equs={nme: num(5)}, tag="names"))
            out.append(ExprCase(binop("-", num(9), un(u, sym(nme))), equs={nme: binop("+", num(2), num(3))}, tag="names"))
    return out


def grid():
    out = []
    g = grid_values()
    for o in BINOPS:
        for a in g:
            for b in g:
                out.append(ExprCase(binop(o, leaf(a), leaf(b)), tag="grid." + o))
    for u in UNOPS:
        for a in g:
            out.append(ExprCase(un(u, leaf(a)), tag="grid.un" + u))
    for f in FUNCS:
        for a in g + [0x0102030405060708, 0x1234, 0x12345678, 5, 62, 61]:
            out.append(ExprCase(fn(f, leaf(a)), tag="grid." + f))
    return out


def error_propagation():
    """An undefined name or a zero divisor anywhere in a tree fails the build: on either side of every operator, under
    every unary operator and function, also where the other operand already decides the value."""
    out = []
    bad = [sym("nosuch"), binop("/", num(1), num(0)), binop("%", num(7), num(0)), binop("*", num(MAXI), num(2))]
    for b in bad:
        for o in BINOPS:
            for other in (0, 1, 5):
                out.append(ExprCase(binop(o, num(other), b), tag="errors." + o))
                out.append(ExprCase(binop(o, b, num(other)), tag="errors." + o))
            out.append(ExprCase(binop(o, binop("+", num(1), b), num(2)), tag="errors." + o))
        for u in UNOPS:
            out.append(ExprCase(un(u, b), tag="errors.un"))
        for f in FUNCS:
            out.append(ExprCase(fn(f, b), tag="errors.fn"))
    return out


def twins():
    """Two lines that differ only in the letter case of a character constant (or in nothing but what a name stands for):
    each has its own value.  Observed on the second line."""
    out = []
    pairs = [(num(ord("a")), num(ord("A"))), (num(ord("A")), num(ord("a"))), (num(ord("z")), num(ord("Z"))), (num(ord("Q")), num(ord("q")))]
    wraps = [lambda e: e, lambda e: binop("+", e, num(1)), lambda e: binop("-", e, num(ord("0"))), lambda e: fn("low", e), lambda e: un("-", e),
             lambda e: binop("|", binop("<<", e, num(8)), e), lambda e: binop("==", e, num(ord("a")))]
    for a, b in pairs:
        for w in wraps:
            # (every number that is a printable character is written as a character constant)
            out.append(ExprCase(w(copy.deepcopy(b)), twin=w(copy.deepcopy(a)), tag="twins", spell=Spell(radix="chr")))
            out.append(ExprCase(w(copy.deepcopy(b)), twin=w(copy.deepcopy(a)), tag="twins", via_macro=True, spell=Spell(radix="chr")))
    # the same text twice: a value is a value, whatever was on the line before
    for e in (binop("+", num(3), num(4)), num(ord("a")), binop("*", sym("k"), num(2))):
        out.append(ExprCase(copy.deepcopy(e), twin=copy.deepcopy(e), equs={"k": num(21)}, tag="twins"))
    return out


def other_positions(rnd, tier):
    """The operand of .byte and of .org is a constant expression like any other: it has the table's value there, and division by
    zero, overflow and unknown functions fail the build there as well.  (Names that are not known when the line is read are a
    recorded finding of C02 and are not used here.)"""
    out = []
    bad = [binop("/", num(1), num(0)), binop("%", num(7), num(0)), binop("*", num(MAXI), num(2)), binop("+", num(MAXI), num(1)),
           binop("-", un("-", num(MAXI)), num(2)), un("-", binop("-", un("-", num(MAXI)), num(1)))]
    for via in ("byte", "org"):
        for b in bad:
            out.append(ExprCase(b, tag="position." + via, via=via))
            for o in ("+", "*", "&", "||", "<<"):
                out.append(ExprCase(binop(o, num(3), b), tag="position." + via, via=via))
                out.append(ExprCase(binop(o, b, num(0)), tag="position." + via, via=via))
            out.append(ExprCase(fn("low", b), tag="position." + via, via=via))
            out.append(ExprCase(sym("k"), equs={"k": b}, tag="position." + via, via=via))
        small = [0, 1, 2, 3, 5, 7, 12, 100]
        for o in BINOPS:
            for a, b_ in ((12, 5), (3, 100), (7, 2), (0, 1), (100, 7)):
                out.append(ExprCase(binop(o, num(a), num(b_)), tag="position." + via, via=via))
        for f in FUNCS:
            out.append(ExprCase(fn(f, num(0x1234)), tag="position." + via, via=via))
        for _ in range(150 if tier == "quick" else 3000):
            out.append(ExprCase(random_tree(rnd, rnd.randrange(2, 5), small), tag="position." + via, via=via))
        out.append(ExprCase(binop("+", sym("k"), num(1)), equs={"k": binop("*", num(3), num(4))}, tag="position." + via, via=via))
    return out


def random_tree(rnd, depth, g):
    if depth == 0 or rnd.random() < 0.25:
        return leaf(rnd.choice(g)) if rnd.random() < 0.5 else num(rnd.randrange(0, 20))
    x = rnd.random()
    if x < 0.7:
        return binop(rnd.choice(BINOPS), random_tree(rnd, depth - 1, g), random_tree(rnd, depth - 1, g))
    if x < 0.88:
        return un(rnd.choice(UNOPS), random_tree(rnd, depth - 1, g))
    return fn(rnd.choice(FUNCS), random_tree(rnd, depth - 1, g))


def check(prop, tier, seed):
    build_harness()
    rnd = random.Random(seed)
    scratch = Scratch(prop)
    v = Verdict(prop, tier, seed, "model_checking")
    try:
        cases = grid() + shapes(tier) + spelled(rnd, tier) + error_propagation() + chains() + other_positions(rnd, tier) + twins()
        g = grid_values()
        for _ in range(3000 if tier == "quick" else 60000):
            cases.append(ExprCase(random_tree(rnd, rnd.randrange(2, 7), g), tag="random"))
        jobs = [{"k": "str", "id": i, "src": c.src} for i, c in enumerate(cases)]
        res = run_jobs(jobs)
        events = []
        for i, c in enumerate(cases):
            r = res[i]
            ev = {"ast": c.ast, "toks": tokens(c.ast), "equs": c.equs, "labels": c.labels, "pc": c.pc, "res": r["r"], "b": [], "via": c.via, "n": -1}
            if r["r"] == "ok" and c.via == "byte":
                ev["n"] = r["rf"]                       # bytes of RAM reserved
                if r["code"] != "0000" or r["eeprom"]:
                    ev["res"] = "shape"
            elif r["r"] == "ok" and c.via == "org":
                code = unhex(r["code"])
                ev["n"] = len(code) // 2 - 1            # where the one instruction was put
                if any(code) or r["eeprom"] or len(code) % 2:
                    ev["res"] = "shape"
            elif r["r"] == "ok":
                code = unhex(r["code"])
                ev["b"] = code[2 * c.nlabel + c.skip:]
                if len(ev["b"]) != 8 or any(code[:2 * c.nlabel]) or r["eeprom"]:
                    ev["res"] = "shape"
            events.append(ev)
        can = []
        oks = [e for e in events if e["res"] == "ok"]
        errs = [e for e in events if e["res"] == "err"]
        plus = [e for e, c in zip(events, cases) if c.tag == "grid.+" and e["res"] == "ok"]     # always specified
        perr = [e for e, c in zip(events, cases) if c.tag == "grid.+" and e["res"] == "err"]
        for e in (plus[0], plus[len(plus) // 2]):
            c = copy.deepcopy(e); c["b"][0] ^= 1; can.append(c)
        c = copy.deepcopy(plus[1]); c["toks"] = c["toks"] + [{"k": "rp", "s": ")"}]; can.append(c)
        if perr:
            c = copy.deepcopy(perr[0]); c["res"] = "ok"; c["b"] = [0] * 8; can.append(c)
        for via in ("byte", "org"):       # a reservation / an origin one off, and a zero divisor that went through
            pos = [e for e, c_ in zip(events, cases) if c_.via == via and c_.ast == binop("+", num(12), num(5))]
            c = copy.deepcopy(pos[0]); c["res"] = "ok"; c["n"] = 18; can.append(c)
            neg = [e for e, c_ in zip(events, cases) if c_.via == via and c_.ast == binop("/", num(1), num(0))]
            c = copy.deepcopy(neg[0]); c["res"] = "ok"; c["n"] = 0; can.append(c)
        # the first three corruptions must be specified cases for the self-test to mean something: grid "+" cases are
        rejected, stats = validate_events(events + can, "Trace_Expr", scratch)
        ncan = sum(1 for i in range(len(events), len(events) + len(can)) if i in rejected)
        if ncan != len(can):
            raise ToolError("binding self-test failed: %d of %d corrupted events were rejected" % (ncan, len(can)))

        def matcher(k, case):
            return False
        for i in sorted(rejected):
            if i >= len(events):
                continue
            c = cases[i]
            v.reject({"tag": c.tag, "source": c.src, "ast": c.ast, "observed": {"r": res[i]["r"], "bytes": events[i]["b"], "text": res[i].get("text", "")[:200]},
                      "expected": rejected[i]}, matcher)
        mc = model_check("MC_Expr", scratch, cfg="MC_Expr" if tier == "quick" else "MC_Expr_thorough", workers=8, xmx="8g", coverage=False)
        v.summary(lambda x: (x["tag"].split(".")[0], _top(x["ast"]), x["observed"]["r"], "expected " + x["expected"]["ok"]))
        v.coverage.update({
            "states": stats["states"] + mc["states"], "transitions": stats["transitions"] + mc["transitions"],
            "traces_validated_against_impl": len(events),
            "model_checking_of_spec": dict(mc, theorems="ParseRender: Parse(Render(t)) = t; Minimal: dropping any parenthesis pair Render wrote changes the parse",
                                           space="all trees of depth <= %d grown one operator per step, off-spine subtrees of depth <= 1" % (2 if tier == "quick" else 3)),
            "evaluations": len(events), "distinct_nontrivial": len({c.src for c in cases}),
            "rule": "grid: 18 binary operators x G x G, 3 unary and 8 functions x G with G = %d boundary values; all depth-2 operator shapes with "
                    "small leaves rendered with only the required parentheses; leaves in 6 radices / as .equ symbols / as labels in 3 letter cases; "
                    "an undefined name / zero divisor / overflow on either side of every operator; names defined through chains of other names used repeatedly; names beginning like registers or functions; seeded random trees of depth 2-6; twin lines that differ only in the letter case of a character constant; the same evaluation as the size of a .byte reservation (observed: RAM usage) and as an origin (observed: where the next instruction lands), with failing and small-valued trees; distinct = distinct sources" % len(g),
            "tags": _count(c.tag.split(".")[0] for c in cases),
            "observed_ok": len(oks), "observed_err": len(errs), "observed_other": len(events) - len(oks) - len(errs),
            "rejected_events": len([i for i in rejected if i < len(events)]),
            "binding_selftest": "%d/%d corrupted events rejected" % (ncan, len(can)),
            "tlc": stats, "exhaustive": False,
            "samples": [{"source": cases[i].src, "observed": events[i]["res"], "bytes": events[i]["b"]} for i in
                        sorted(rnd.sample(range(len(cases)), 6))],
        })
        v.assumptions += ["outcomes the operator table leaves open are accepted either way: shift counts outside 0..63, >> of negative values, "
                          "exp2 outside 0..62, -2^63 % -1 (C16 still forbids a panic there)",
                          "I64.tla limb arithmetic (identities checked by TLC in setup)", "TLC, Json/IOUtils/Bitwise overrides"]
        return v.finish()
    finally:
        scratch.cleanup()


def _top(a):
    return a.get("op") or a.get("f") or a["t"]


def _count(it):
    c = {}
    for x in it:
        c[x] = c.get(x, 0) + 1
    return c
