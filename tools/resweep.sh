#!/bin/sh
# resweep.sh [names...] : re-evaluates stored seeded changes against the current /repo (rebasing patches where needed)
cd /verif
mkdir -p /tmp/resweep
names="$@"
[ -z "$names" ] && names=$(ls seeded | grep -E '^C[0-9]+-')
for n in $names; do
  d=seeded/$n
  [ -f $d/patch.diff ] || continue
  p=$(echo $n | cut -d- -f1)
  rm -rf /tmp/resweep/$n; mkdir -p /tmp/resweep/$n
  cp $d/patch.diff /tmp/resweep/$n/
  # one demonstration file is enough (seed_eval takes the first *.rs)
  f=$(ls $d/*.rs 2>/dev/null | head -1); [ -n "$f" ] && cp $f /tmp/resweep/$n/
  [ -f $d/notes.md ] && cp $d/notes.md /tmp/resweep/$n/
  checks=$(python3 -c "
import json
m=json.load(open('$d/meta.json'))
ks=[k for k,v in m.get('checks',{}).items() if v.get('verdict')=='detected']
print(' '.join(ks or ['$p']))")
  out=$(timeout 2400 python3 tools/seed_eval.py $p /tmp/resweep/$n $checks 2>&1 | grep -E "^confirm|^check|PATCH|REPO")
  echo "$n: $(echo "$out" | tr '\n' ' ' | cut -c1-260)"
  git -C /repo checkout -- . 2>/dev/null
done
