"""Writes /verif/MANIFEST.json from the table below (single source of truth for what is claimed)."""
import json
import os

VERIF = os.path.dirname(os.path.dirname(os.path.abspath(__file__)))

TB = "TLC + CommunityModules overrides; the TLA+ transcription of the reference (spec/*.tla); the recorder (harness/src/drive.rs, tools/*.py)"

CHECKS = {
    "C01": dict(level="model_checking", ref="3 C01",
                tech="TLC trace validation of every encodable instruction against AvrIsa.tla (encode + independent mask/value decode); MC_Isa round-trip theorem",
                text="Every legal one-word operand tuple of all 114 mnemonics (two-word address spaces: boundary + seeded random) is assembled by the real code and each result is judged by TLC against AvrIsa.tla: words equal Encode and the independent decoder returns the canonical form. The spec's own decode(encode)=canon theorem is model-checked (MC_Isa, 120k forms) and Encode was audited against llvm-mc. Whole programs besides: per device and form sequences of forms with a label behind, and twin lines - the same instruction text twice with a .set variable reassigned, a .def alias bound anew or the location counter moved in between - judged by Trace_Asm.",
                note=TB + "; AvrIsa.tla transcribes the AVR Instruction Set Manual"),
    "C04": dict(level="model_checking", ref="3 C04",
                tech="TLC trace validation of illegal/legal operand windows, kind and count confusions against AvrIsa!Legal",
                text="For every mnemonic, every register 0..31 in every register position, numeric windows of +-300 (thorough +-5000) around both ends of each field plus 2^k offsets and huge values, operand kind confusions and operand counts 0..3, on both cores; TLC accepts an event only if build outcome = EncodeResult (error iff not Legal, exact words otherwise; a panic is not an error). Twin lines (Trace_Asm): the same instruction text twice with a .def alias bound anew in between, to a register the mnemonic takes (other code) and to one it does not take (refused).",
                note=TB),
    "C13": dict(level="model_checking", ref="3 C13",
                tech="TLC trace validation of every device x every (mnemonic, addressing form) against Devices!Unavailable and AvrIsa",
                text="All devices of the public table x all mnemonic/addressing forms; TLC requires error iff the device's documented flags take the form away, and otherwise exactly the words of the no-device encoding (one-word lds/sts on the reduced core); operands at both ends of every class; plus whole programs per device and form (other forms of the same mnemonic first, then the form, a label, a jump to it and its value) judged by Assembler!Run. Registers are also written through .def aliases (rebound inside .dseg as well). Lines without effect (.csegsize, .pragma, #pragma), also from a macro body, between the device selection and forms the device has / lacks.",
                note=TB + "; flag semantics as documented on the DisabledOptions type; ldd/std forms on the reduced core (Avr8l) excluded as unspecified; on Tiny1x parts a displacement operand is LDD/STD however the mnemonic is written"),
    "C02": dict(level="model_checking", ref="3 C02",
                tech="TLC trace validation of whole-program builds against Assembler.tla (layout/emit state machine)",
                text="All item sequences up to length 3 (thorough 4) over a 14-symbol layout alphabet x 3 device classes, plus seeded random programs of 5-60 items over 5 devices, each with a .dw table of its labels, are built by the real code; TLC recomputes every build with Assembler!Run (one location counter per segment type, .org gaps zero-filled, labels at the next item) and accepts only identical images, sizes and RAM usage. MC_Layout model-checks the layout theorems (LandsWhereAssigned, NoOverlap, GapsAreZero, LabelAtNextItem, OrgHonoured) on the specification for all programs up to 4 (thorough 5) items. The hook events of the layout/emission passes (feature verif) of a sample of these builds, of the repository's fixtures, of every shipped part file and of the repository's own test suite are replayed step by step through Trace_Pipeline.",
                note=TB + "; .org not followed by a space-occupying item is not generated (property silent)"),
    "C03": dict(level="model_checking", ref="3 C03",
                tech="TLC trace validation of branch/jump placements against Assembler.tla + AvrIsa (Rel7/Rel12 legality and encoding)",
                text="Forward and backward <branch, filler, target> programs for all 34 branch forms and rjmp/rcall at every boundary distance and every distance -70..70, with seven filler mixes (one- and two-word instructions, odd .db, .dw, .org gaps) and targets named by label and by pc expression; TLC requires success iff the displacement fits and the exact image otherwise.",
                note=TB),
    "C05": dict(level="model_checking", ref="3 C05",
                tech="TLC trace validation of evaluations (.dq <expr>, .byte <expr>, .org <expr>) against Expr!Eval on exact integers; MC_Expr parse/render theorems",
                text="18 binary operators on a 31x31 grid of boundary operands, unary operators and byte/word functions on the grid, all depth-2 operator shapes rendered with only the parentheses the table requires, leaves in six radices / as .equ symbols / as labels in three letter cases, and seeded random trees of depth 2-6 are evaluated by the real code; TLC accepts only the table's value (64-bit two's complement) or an error for zero divisors and overflow, and checks that the rendered tokens are the specification's rendering. The same evaluation is observed in two more positions - as the size of a .byte reservation (RAM usage reported) and as an origin (where the next instruction lands) - with failing and small-valued trees. MC_Expr proves Parse(Render(t)) = t and minimality of the parentheses for all trees up to depth 2 (thorough 3).",
                note=TB + "; outcomes the operator table leaves open are accepted either way (shift counts outside 0..63, >> of negatives, exp2 outside 0..62, -2^63 % -1)"),
    "C06": dict(level="model_checking", ref="3 C06",
                tech="TLC trace validation of data directives against Assembler!DataFrom on exact (limb) integers",
                text="Element lists of length 0..5 over the boundary values of each width (both ends, signed/unsigned), symbols, labels and ten strings (empty, non-ASCII, containing ; , //) for .db/.dw/.dd/.dq in code, EEPROM and data segments followed by a second item, and .byte in each segment; TLC recomputes bytes, padding and errors.",
                note=TB + "; I64.tla limb arithmetic (its identities are checked by TLC in setup)"),
    "C07": dict(level="model_checking", ref="3 C07",
                tech="TLC replay of the records of written HEX files through the reader state machine of IHex.tla; MC_IHex round-trip and defect-rejection theorems",
                text="Every image length 0..600 and every length within 17 bytes of the 64 KiB boundaries (quick: 64/128 KiB, thorough: up to 512 KiB and 1 MiB) with specification-defined contents, for both writers: the file is lexed to records and TLC's reader accepts only well-formed records with valid checksums, one end-of-file record at the end, and every image byte exactly once at its address. MC_IHex checks the reference writer against the reader for all lengths 0..70 at toy record/block sizes and that six typical writer defects are rejected.",
                note=TB + "; blank lines in the file are ignored"),
    "C08": dict(level="model_checking", ref="3 C08",
                tech="TLC trace validation of all well-formed conditional structures against the conditional stack of Assembler.tla",
                text="Every well-formed nesting structure (if / elif* / else? / endif, nesting <= 3) up to 7 lines (thorough 9), instantiated with all-true, all-false and seeded truth assignments over literal, .equ and .define conditions, with marker instructions, messages, garbage text, .define and label definitions in the branches; TLC's reference (stack with taken flag) must give the same image, messages and error status; conditions with negative and huge values and the '#' spelling of the directives included. MC_Cond model-checks the reference itself for all well-formed programs up to 6 (thorough 7) lines: the stack machine selects exactly the lines a declarative, stack-free reading of the property selects, filtering preserves the result, and the reader without a taken flag (the implementation before its fix) violates it. Conditionals inside macro bodies whose outcome depends on earlier expansions, macro definitions inside skipped branches and conditions without a value in positions that are not evaluated are generated as well. The specification's conditional stack (Cond.tla) is model-checked as a machine of its own for programs of any length (MC_CondMachine, nesting <= 6 quick / 8 thorough: Agree, AtMostOne, NoPeek, Decides), and the judge of the reader hooks' line events is checked complete and sound against it; those line events of the real reader (every line handed on / passed over / recorded) are replayed for the generated programs, the repository's fixtures, part files and own test suite.",
                note=TB + "; ill-formed chains not generated"),
    "C09": dict(level="model_checking", ref="3 C09",
                tech="TLC trace validation of macro programs against the syntax-tree substitution of Assembler.tla",
                text="40 macro bodies (register, repeated parameter, one operator of every precedence level on either side of the parameter, data, index forms, conditionals on parameters, nested calls with permuted parameters, bodies switching to the data and EEPROM segments) x seeded argument sets x five call placements x letter case of definition and call, plus missing-argument and undefined-macro variants; TLC expands on the syntax tree (argument substituted as a unit) and requires the same image or error. MC_Macro model-checks the specification's expansion against a purely textual flattening (HandExpanded) for 1.7e5 (thorough 1.5e6) programs. Calls in the data and EEPROM segments, bodies of symbol directives only, arguments with every binary operator, 63..300 calls per build are generated too. Symbols spelled like registers (x, y, z, r5) passed in parentheses, directly, negated and through a nested call.",
                note=TB + "; labels in bodies called twice, macros defined in bodies, unbounded recursion not generated"),
    "C10": dict(level="model_checking", ref="3 C10",
                tech="TLC trace validation of symbol programs and their single-line deletion/duplication mutants against Assembler.tla",
                text="Seeded random programs over labels, .equ, .set, .def/.undef and uses in instructions and data, each line spelled in lower/upper/mixed case, plus every single-line deletion and every duplication with a specified outcome, plus hand-shaped corners; TLC's binding rules (global labels/.equ, sequential .set/.def) decide image or error.",
                note=TB + "; cross-kind clashes, .equ redefinition, .def of a bound alias not generated"),
    "C11": dict(level="model_checking", ref="3 C11",
                tech="TLC trace validation of file trees (build_file) and their flattening (build_str) against Files.tla; paste theorem checked on every recorded tree",
                text="Four base programs (symbols, a macro, device selection, conditionals, data, aliases) are cut at seeded safe positions into trees of up to 5 files / depth 3 and every file is placed in one of seven places (same directory, sub-directory in the path, caller-supplied directory, .includepath of the main file relative/absolute, .includepath declared in a nested file, path relative to the process directory), with optional .exit followed by garbage, plus missing-file variants; TLC requires build_file(tree) and build_str(flat) to equal the specification's results, the error of a missing file to name it, and RunTree(tree) = Run(flat). Also: chains of files nested up to the documented limit of 32 (33 is refused), a file included two and three times, capitalised names, an included file with a two-byte character across 8 KiB boundaries. Programs with one faulty line (unknown device, second device, undefined name, lacking instruction) cut into trees; include operands and .includepath with '..' in a file reached through a symbolic link to its directory (the specification is given the tree as the operating system shows it).",
                note=TB + "; a name never exists in more than one searched directory; conditionals/macros not split across files"),
    "C12": dict(level="model_checking", ref="3 C12",
                tech="TLC trace validation of capacity boundary programs for every device row against Devices!Fits; part-definition files compared with the table by TLC",
                text="Every device of the public table (and none) x flash/EEPROM/RAM x capacity-1/capacity/capacity+1 reached by instructions, data, reservations and .org, unknown and second device, reported sizes; TLC applies Fits to the exported rows. The figures of every shipped part-definition file are extracted by an independent scanner and TLC requires row = file.",
                note=TB + "; the independent part-file scanner (regular expression over .equ NAME = value)"),
    "C14": dict(level="model_checking", ref="3 C14",
                tech="TLC trace validation of respelled programs: every variant must give the specification's result for the abstract program",
                text="The full factorial of 1440 spelling descriptors (letter case x whitespace pattern x comment style x line end x radix x blank/comment-only lines) on 35 minimal-context programs, one per line kind, plus multi-line programs from the layout, symbol and conditional generators with an independent seeded descriptor per line; each distinct (program, result) pair is judged by TLC against Assembler!Run, so all variants of a program must agree with the specification and hence with each other.",
                note=TB + "; rewrites the statement does not list are not varied"),
    "C15": dict(level="model_checking", ref="3 C15",
                tech="TLC trace validation of single-fault programs (error line must be the spec's fault line, also after shifting by 7 lines) and message placements",
                text="5 base programs x every insertion position x 16 single-line faults, each built as is and shifted by 7 lines: TLC requires an error whose text contains the specification's fault line as an integer token both times; 768 placements of .message/.warning/.error in and around taken/untaken branches: order, text, own line numbers, unchanged images.",
                note=TB + "; line numbers inside included files excluded; messages of macro bodies are demanded where the call stands (source order) - the implementation lists them last: known finding macro-messages-listed-last"),
    "C16": dict(level="exploration", ref="3 C16",
                tech="bounded-exhaustive product of heads x operand dictionary defined by Api.tla, supervised execution, TLC (Trace_Api) checks completeness and accepts only ok/err",
                text="Every single-line program `head op, op(, op)` over the 158 heads and the 46-entry operand dictionary that Api.tla defines (exported by TLC; ~3.4e5 programs with up to two operands in quick, 1.5e7 with three in thorough) plus token soups and seeded byte/token/line mutations of valid programs up to 64 KiB are built in supervised worker processes (watchdog 10 s, 2 GiB address space); every head with at most one operand is also put into eleven contexts (skipped branch, assembled branch, .elif position, macro body, other segments, small devices), and resource hogs are built under small devices in a 48 MiB address space. TLC checks that every group of the enumeration is complete and that every outcome is ok or err. Time, memory and crashes are observed by the operating system, not modelled - hence exploration, not model checking. Also: size-parameterised resource families (nesting, operator chains, guard-fooling character constants, definition chains in every letter case and through functions, doubling definitions, macro fan-out by calls and by lines, substitution blow-up, literals beyond 64 bits in twelve contexts) and the valid corpus once more in a thread with a 256 KiB stack; file trees that include themselves, devices, pipes and directories. Watchdog 20 s (the slowest job of the unchanged tree takes about 3 s).",
                note=TB + "; harness profile release + overflow-checks"),
    "C17": dict(level="model_checking", ref="3 C17",
                tech="TLC replay of recorded build sessions (sequential histories, also with the working directory changed between builds, TLC-generated stage interleavings with real threads, unsynchronised threads, fresh processes) through the actions Chdir/Start/Stage/End of Api.tla; MC_Api (holds; shared-device and latched-directory variants violate it)",
                text="24 programs sharing macro, symbol, alias and device names (valid, failing in each stage, failing/valid pairs using the same names, more than ten macro arguments, many names of every kind): every sequential history up to length 3 (thorough 4), all 70 TLC-generated schedules of two stage-gated builds x ordered pairs, seeded schedules of three builds, 16 unsynchronised threads x 200 builds (and 16 concurrent builds with 1.1e5 macro calls each), one history in 4 fresh processes, every history of three file trees whose include names are equal but found through different directories, every history of three (thorough four) builds of a source string and a relatively named main file in three working directories that hold different files under one relative include path, the process changing directory in between. Every session is replayed through Start/Stage/End of Api.tla, where End is only enabled with the result the program has alone in a fresh process. MC_Api model-checks Independent and shows that a variant with a shared device selection violates it.",
                note=TB + "; results compared by digest; gating through the public stage functions"),
    "C18": dict(level="model_checking", ref="3 C18",
                tech="TLC trace validation of recorded runs of the real binary (argv, exit status, files before/after, lexed HEX records) against Cli!Allowed with the IHex reader",
                text="11 sources (valid, code+EEPROM, EEPROM only, empty, > 64 KiB, failing in parse/pass 2/limits/include, missing file) x three source path forms x six output locations for each of -o and -e (default, writable, existing file, missing parent, a directory, /dev/full) x -v: the binary built from /repo is run in a scratch tree, and TLC requires: failed build => nothing created or altered, something printed, exit status non-zero; successful build => flash file decodes (IHex reader) to exactly the library's image, EEPROM file iff non-empty image, nothing else changes, exit 0 unless an output is unwritable. Also: source file names with dots, spaces, no extension, reached through a symbolic link; the same file named for both images; an output cut short by a file size limit; images just over 1 MiB; the memory figures of the -v report against the library's for parts with and without EEPROM / SRAM. Also: images with whole rows of 0xFF / zeros, and the EEPROM output named as a hard link of the flash output (one file cannot hold both: reported, non-zero exit, flash file intact).",
                note=TB + "; library images obtained in-process from build_file with the same include set"),
}

TITLES = {}
for line in open(os.path.join(VERIF, "properties.jsonl")):
    p = json.loads(line)
    TITLES[p["id"]] = p["title"]

NOT_YET = "check not built yet in this round (planned, see DESIGN.md section 3); not claimed until it runs green"


def main():
    checks = []
    for pid in sorted(CHECKS):
        c = CHECKS[pid]
        checks.append({
            "property_id": pid,
            "quick_cmd": "./check %s --tier quick" % pid,
            "thorough_cmd": "./check %s --tier thorough" % pid,
            "evidence_file": "evidence/%s.json" % pid,
            "replay_cmd_template": "./check %s --replay {path}" % pid,
            "engine": "tlc-trace-validation",
            "level_claimed": {"category": c["level"], "text": c["text"], "design_ref": "DESIGN.md section " + c["ref"]},
            "level_note": c["note"],
            "technique": c["tech"],
        })
    m = {
        "version": 1,
        "setup_cmd": "./setup.sh",
        "hooks": {
            "guard": "cargo feature `verif` on the avra-rs package (cfg(feature = \"verif\"))",
            "enable": "the harness depends on /repo by path; hook-level validation enables the feature through that dependency (features = [\"verif\"]); the primary checks need no hooks",
            "baseline_off_cmd": "cd /repo && cargo test --workspace --no-fail-fast --offline",
            "source_commits": ["4bdd6677223e2f14d6c4d8486562255e0e9d6b83", "993fe3ea6cacc957871a5cc3ef0e7e8784649e84", "eac84b7bee61c8db82056b399a70c2cffa4cc523", "3f542e06bfa9f6801fc5365c87b8a20a78501eab", "fe036f18d2a0a21c0e8e9b0eaa035feeeeca4a93"],
            "add_only": True,
        },
        "engines": [
            {"name": "tlc-trace-validation", "path": "spec/", "serves_properties": sorted(CHECKS),
             "kind_free_text": "explicit TLA+ specification (spec/*.tla); TLC model-checks the specification's own theorems (MC_*.tla) and judges traces recorded from the real code (Trace_*.tla); harness/ executes behaviours against the real library and binary"},
        ],
        "checks": checks,
        "not_applicable": [{"property_id": pid, "reason": NOT_YET} for pid in sorted(TITLES) if pid not in CHECKS],
        "notes": "All verdicts come from TLC; see DESIGN.md. known_findings.json lists recorded findings and fixed defects.",
    }
    with open(os.path.join(VERIF, "MANIFEST.json"), "w") as f:
        json.dump(m, f, indent=1)


if __name__ == "__main__":
    main()
