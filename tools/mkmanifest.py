"""Writes /verif/MANIFEST.json from the table below (single source of truth for what is claimed)."""
import json
import os

VERIF = os.path.dirname(os.path.dirname(os.path.abspath(__file__)))

TB = "TLC + CommunityModules overrides; the TLA+ transcription of the reference (spec/*.tla); the recorder (harness/src/drive.rs, tools/*.py)"

CHECKS = {
    "C01": dict(level="model_checking", ref="3 C01",
                tech="TLC trace validation of every encodable instruction against AvrIsa.tla (encode + independent mask/value decode); MC_Isa round-trip theorem",
                text="Every legal one-word operand tuple of all 114 mnemonics (two-word address spaces: boundary + seeded random) is assembled by the real code and each result is judged by TLC against AvrIsa.tla: words equal Encode and the independent decoder returns the canonical form. The spec's own decode(encode)=canon theorem is model-checked (MC_Isa, 120k forms) and Encode was audited against llvm-mc.",
                note=TB + "; AvrIsa.tla transcribes the AVR Instruction Set Manual"),
    "C04": dict(level="model_checking", ref="3 C04",
                tech="TLC trace validation of illegal/legal operand windows, kind and count confusions against AvrIsa!Legal",
                text="For every mnemonic, every register 0..31 in every register position, numeric windows of +-300 (thorough +-5000) around both ends of each field plus 2^k offsets and huge values, operand kind confusions and operand counts 0..3, on both cores; TLC accepts an event only if build outcome = EncodeResult (error iff not Legal, exact words otherwise; a panic is not an error).",
                note=TB),
    "C13": dict(level="model_checking", ref="3 C13",
                tech="TLC trace validation of every device x every (mnemonic, addressing form) against Devices!Unavailable and AvrIsa",
                text="All devices of the public table x all mnemonic/addressing forms; TLC requires error iff the device's documented flags take the form away, and otherwise exactly the words of the no-device encoding (one-word lds/sts on the reduced core).",
                note=TB + "; flag semantics as documented on the DisabledOptions type; ldd/std on Tiny1x/Avr8l via ld/st mnemonics excluded as unspecified"),
}

TITLES = {}
for line in open(os.path.join(VERIF, "properties.jsonl")):
    p = json.loads(line)
    TITLES[p["id"]] = p["title"]

NOT_YET = "check not built yet in this round (planned, see DESIGN.md section 3); not claimed until it runs green"


def main():
    checks = []
    for pid in sorted(CHECKS):
        c = CHECKS[pid]
        checks.append({
            "property_id": pid,
            "quick_cmd": "./check %s --tier quick" % pid,
            "thorough_cmd": "./check %s --tier thorough" % pid,
            "evidence_file": "evidence/%s.json" % pid,
            "replay_cmd_template": "./check %s --replay {path}" % pid,
            "engine": "tlc-trace-validation",
            "level_claimed": {"category": c["level"], "text": c["text"], "design_ref": "DESIGN.md section " + c["ref"]},
            "level_note": c["note"],
            "technique": c["tech"],
        })
    m = {
        "version": 1,
        "setup_cmd": "./setup.sh",
        "hooks": {
            "guard": "cargo feature `verif` on the avra-rs package (cfg(feature = \"verif\"))",
            "enable": "the harness depends on /repo by path; hook-level validation enables the feature through that dependency (features = [\"verif\"]); the primary checks need no hooks",
            "baseline_off_cmd": "cd /repo && cargo test --workspace --no-fail-fast --offline",
            "source_commits": [],
            "add_only": True,
        },
        "engines": [
            {"name": "tlc-trace-validation", "path": "spec/", "serves_properties": sorted(CHECKS),
             "kind_free_text": "explicit TLA+ specification (spec/*.tla); TLC model-checks the specification's own theorems (MC_*.tla) and judges traces recorded from the real code (Trace_*.tla); harness/ executes behaviours against the real library and binary"},
        ],
        "checks": checks,
        "not_applicable": [{"property_id": pid, "reason": NOT_YET} for pid in sorted(TITLES) if pid not in CHECKS],
        "notes": "All verdicts come from TLC; see DESIGN.md. known_findings.json lists recorded findings and fixed defects.",
    }
    with open(os.path.join(VERIF, "MANIFEST.json"), "w") as f:
        json.dump(m, f, indent=1)


if __name__ == "__main__":
    main()
