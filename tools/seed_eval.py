"""seed_eval.py <property> <seed dir> [check ids...]
Confirms a seeded change in a scratch worktree (/tmp/wt-verify: test suite passes with it, the
demonstration fails with it and passes without it), then applies it to /repo, runs the given
checks (default: the property's own), undoes it, and files everything under /verif/seeded/<id>/."""
import glob
import json
import os
import shutil
import subprocess
import sys
import time

WT = "/tmp/wt-verify"
VERIF = "/verif"


def sh(cmd, cwd=None, timeout=3000):
    p = subprocess.run(cmd, shell=True, cwd=cwd, stdout=subprocess.PIPE, stderr=subprocess.STDOUT, text=True, timeout=timeout)
    return p.returncode, p.stdout


def main():
    prop, sdir = sys.argv[1], sys.argv[2].rstrip("/")
    checks = sys.argv[3:] or [prop]
    base = os.path.basename(sdir)
    name = base if base.startswith(prop + "-") else "%s-%s" % (prop, base)
    patch = os.path.join(sdir, "patch.diff")
    demos = [f for f in glob.glob(os.path.join(sdir, "*.rs"))]
    meta = {"id": name, "property": prop, "source": "independent sub-agent given only the property text", "confirmed": {}}
    # --- confirm in the scratch worktree
    sh("git reset -q --hard; git checkout -q --detach $(git -C /repo rev-parse HEAD) && git reset -q --hard && git clean -fdq tests", cwd=WT)
    rc, out = sh("git apply %s" % patch, cwd=WT)
    if rc != 0:
        # the tree has moved on since the change was written (hook commit): three-way apply, then save the rebased patch
        rc, out = sh("git apply --3way %s && git reset -q" % patch, cwd=WT)
        if rc != 0:
            print("PATCH DOES NOT APPLY", out[-500:])
            return 2
        rebased = os.path.join(sdir, "patch.rebased.diff")
        sh("git diff > %s" % rebased, cwd=WT)
        patch = rebased
    rc, out = sh("cargo test --offline --lib 2>&1 | grep -E '^test result'", cwd=WT)
    meta["confirmed"]["suite_with_change"] = out.strip()
    suite_ok = "67 passed; 0 failed" in out
    demo_fail = demo_pass = None
    if demos:
        demo = demos[0]
        tname = "seeddemo"
        shutil.copy(demo, os.path.join(WT, "tests", tname + ".rs"))
        rc1, out1 = sh("cargo test --offline --test %s 2>&1 | grep -E '^test result|error\\[' | head -3" % tname, cwd=WT)
        rc1b, out1b = sh("cargo test --offline --test %s >/dev/null 2>&1; echo rc=$?" % tname, cwd=WT)
        demo_fail = "FAILED" in out1 or ("failed" in out1 and "0 failed" not in out1) or "rc=0" not in out1b
        sh("git checkout -- . ", cwd=WT)
        rc2, out2 = sh("cargo test --offline --test %s 2>&1 | grep -E '^test result|error\\[' | head -3" % tname, cwd=WT)
        demo_pass = "test result: ok" in out2
        meta["confirmed"]["demo_with_change"] = out1.strip()
        meta["confirmed"]["demo_without_change"] = out2.strip()
        os.remove(os.path.join(WT, "tests", tname + ".rs"))
    sh("git checkout -- . && git clean -fdq tests", cwd=WT)
    meta["confirmed"]["ok"] = bool(suite_ok and demo_fail and demo_pass)
    print("confirm:", "suite", suite_ok, "demo fails with change", demo_fail, "demo passes without", demo_pass)
    # --- run the checks against /repo with the change applied
    rc, out = sh("git diff --quiet", cwd="/repo")
    if rc != 0:
        print("REPO NOT CLEAN")
        return 2
    rc, out = sh("git apply %s" % patch, cwd="/repo")
    if rc != 0:
        print("PATCH DOES NOT APPLY TO /repo", out[-300:])
        return 2
    results = {}
    try:
        for c in checks:
            t0 = time.time()
            rc, out = sh("./check %s --tier %s" % (c, os.environ.get("TIER", "quick")), cwd=VERIF)
            verdict = "detected" if rc == 1 else "missed" if rc == 0 else "tool-error"
            results[c] = {"rc": rc, "verdict": verdict, "wall_s": round(time.time() - t0, 1),
                          "lines": [l[:200] for l in out.splitlines() if l.startswith(("VIOLATION", "OK ", "TOOL", "  rejected"))][:8]}
            print("check %s: %s (rc=%d, %.0fs)" % (c, verdict, rc, time.time() - t0))
            for l in results[c]["lines"][:5]:
                print("    " + l[:160])
    finally:
        sh("git checkout -- .", cwd="/repo")
    meta["checks"] = results
    meta["ran"] = "git -C /repo apply patch.diff; ./check <id> --tier quick; git -C /repo checkout -- ."
    notes = os.path.join(sdir, "notes.md")
    if os.path.exists(notes):
        meta["needs_to_manifest"] = open(notes).read()[:3000]
    dst = os.path.join(VERIF, "seeded", name)
    os.makedirs(dst, exist_ok=True)
    try:
        old = json.load(open(os.path.join(dst, "meta.json")))
        # the verdicts of the first evaluation (before any strengthening) are kept
        meta["first_run"] = old.get("first_run") or (old.get("checks") if "-r3m" in name and "previous_run" not in old else None)
        meta["previous_run"] = old.get("checks")
        if old.get("needs_to_manifest") and "needs_to_manifest" not in meta:
            meta["needs_to_manifest"] = old["needs_to_manifest"]
        if meta["first_run"] is None:
            del meta["first_run"]
    except (OSError, ValueError):
        pass
    shutil.copy(patch, os.path.join(dst, "patch.diff"))
    for d in demos:
        shutil.copy(d, dst)
    with open(os.path.join(dst, "meta.json"), "w") as f:
        json.dump(meta, f, indent=1)
    return 0


if __name__ == "__main__":
    sys.exit(main())
