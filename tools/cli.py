"""C18: the command-line tool.  The real binary is built from /repo and run in scratch directories
over sources x option sets x output locations; each run is recorded (argv, exit status, printed?,
files before/after with the lexed records of the output files) next to what the library builds for
the same source, and TLC judges the record with Cli!Allowed (Trace_Cli)."""
import copy
import hashlib
import itertools
import os
import random
import shutil
import subprocess
import zlib

from common import *
import hexfiles

SOURCES = {
    "code": "ldi r16, 1\nloop: rjmp loop\n.db \"hello\", 0\n",
    "code+eeprom": "nop\n.eseg\nee: .db 1, 2, 3\n.cseg\nldi r16, ee\n",
    "eeprom-only": ".eseg\n.dw 0x1234\n.db 7\n",
    "empty": "; nothing here\n",
    # images with whole rows of erased cells (0xFF) and of zeros: at the end, in the middle, the whole EEPROM
    "erased-rows": "ldi r16, 1\n" + ".dw 0xffff\n" * 15 + "nop\n" + ".dw 0xffff, 0xffff, 0xffff, 0xffff, 0xffff, 0xffff, 0xffff, 0xffff\n" * 2 + ".eseg\n" + ".db 0xff\n" * 32 + "\n",
    "zero-rows": ".dw 0, 0, 0, 0, 0, 0, 0, 0\n" * 3 + "ret\n" + ".dw 0, 0, 0, 0, 0, 0, 0, 0\n.eseg\n.db 1\n" + ".db 0\n" * 31,
    "big": ".org 0x8005\nnop\n.eseg\n.org 0x1fe\n.db 9\n",
    "messages": ".message \"hi\"\nnop\n",
    "fail-parse": "ldi r16,, 1\n",
    "fail-pass2": "nop\nldi r16, nowhere\n",
    "fail-limits": ".device ATtiny13\n.org 512\nnop\n",
    "fail-include": ".include \"missing.inc\"\nnop\n",
    # parts without EEPROM / without SRAM: the sizes reported are zero
    "no-eeprom": ".device ATtiny11\nnop\nrjmp 0\n",
    "no-ram": ".device AT90S1200\nnop\n.eseg\n.db 1, 2\n",
    "small-part": ".device ATtiny13\n.dseg\nv: .byte 5\n.cseg\nldi r16, 1\n.eseg\n.db 7\n",
    # includes a file by name: found next to the source as named on the command line
    "with-include": ".include \"defs.inc\"\nldi r16, variant\n.eseg\n.db variant\n",
    # 4 KiB of code: its HEX file (about 11 KB) does not fit a 2 KiB file size limit
    "code4k": "".join(".dw 0x%04x\n" % (i * 7 % 65536) for i in range(2048)) + ".eseg\n.db 1, 2, 3\n",
    # an image a little over 1 MiB: 16 full 64 KiB blocks and a partly filled 17th
    "huge": "ldi r16, 1\n.org 0x80000\nnop\n.dw 0xbeef, 0xcafe\n",
    "huge2": ".org 0x87ff0\n.dw 0x1234\n",
}
SPECIAL = ("code4k", "huge", "huge2")      # not part of the full product
LOCS = ["default", "writable", "existing", "noparent", "isdir", "devfull"]


def snapshot(root):
    out = {}
    for d, _, fs in os.walk(root):
        for f in fs:
            p = os.path.join(d, f)
            try:
                with open(p, "rb") as fh:
                    out[p] = hashlib.sha1(fh.read()).hexdigest()
            except OSError:
                out[p] = "?"
    return out


FILE_NAMES = ["prog.asm", "blink.v2.asm", "noext", "My Prog.ASM", "a.b.c.s", "caf\udce9.asm", "\udcff\udcfe"]      # the last two: bytes that are not UTF-8 (surrogate-escaped)


def stem_of(fname):
    """<source stem>: the file name without its last extension."""
    return fname.rsplit(".", 1)[0] if "." in fname[1:] else fname


def scenario(root, srcname, srcform, oloc, eloc, verbose, fname="prog.asm"):
    """Materialises one scenario; returns argv, cwd, expected output paths, writability."""
    proj = os.path.join(root, "proj")
    os.makedirs(proj)
    os.makedirs(os.path.join(root, "out"))
    missing = srcname == "missing-source"
    if srcname == "with-include":
        with open(os.path.join(proj, "defs.inc"), "w") as f:
            f.write(".equ variant = 2\n")
    if not missing and fname == "link.asm":
        # the source is reached through a symbolic link: outputs go next to the name that was given
        os.makedirs(os.path.join(root, "shared"))
        with open(os.path.join(root, "shared", "blink_v2.asm"), "w") as f:
            f.write(SOURCES[srcname])
        os.symlink("../shared/blink_v2.asm", os.path.join(proj, fname))
        if srcname == "with-include" and srcform != "rel-dir":
            # another defs.inc beside the file the link points to (not always: the include must also be found when only the link's directory has it)
            with open(os.path.join(root, "shared", "defs.inc"), "w") as f:
                f.write(".equ variant = 1\n")
    elif not missing:
        with open(os.path.join(proj, fname), "w") as f:
            f.write(SOURCES[srcname])
    # bystanders that must not be touched: files whose names are near the expected output names
    for by in ("prog.v1.hex", stem_of(fname).split(".")[0] + ".hex.bak", "other.hex", "other.eep.hex"):
        with open(os.path.join(proj, by), "w") as f:
            f.write("BYSTANDER\n")
    first = stem_of(fname).split(".")[0]
    if first != stem_of(fname):
        for by in (first + ".hex", first + ".eep.hex"):
            with open(os.path.join(proj, by), "w") as f:
                f.write("BYSTANDER\n")
    if srcform == "abs":
        cwd, src = root, os.path.join(proj, fname)
    elif srcform == "rel-dir":
        cwd, src = root, "proj/" + fname
    else:
        cwd, src = proj, fname
    argv = ["-s", src]

    def place(loc, which, default_name):
        if loc == "default":
            p = os.path.join(proj, default_name)
            return None, p, True
        if loc == "writable":
            p = os.path.join(root, "out", which + ".hex")
            return p, p, True
        if loc == "existing":
            p = os.path.join(root, "out", which + "-old.hex")
            with open(p, "w") as f:
                f.write(":10000000FFFFFFFFFFFFFFFFFFFFFFFFFFFFFFFF00\r\n" * 20000)      # an older, much longer output
            return p, p, True
        if loc == "noparent":
            p = os.path.join(root, "nodir", which + ".hex")
            return p, p, False
        if loc == "isdir":
            p = os.path.join(root, "out", which + "-dir")
            os.makedirs(p)
            return p, p, False
        if loc == "source":
            # the source file itself named as output: refused, the source stays as it is
            p = os.path.join(proj, fname)
            return p, p, False
        if loc == "fsize":
            # a location that takes only the beginning of the file: the process runs under a file size limit of 2 KiB
            p = os.path.join(root, "out", which + "-limited.hex")
            return p, p, False
        return "/dev/full", "/dev/full", False
    oarg, opath, ow = place(oloc, "flash", stem_of(fname) + ".hex")
    if eloc == "sameflash":
        # the very file the flash image goes to: cannot hold both images
        earg, epath, ew = (oarg or opath), opath, False
    elif eloc == "hardflash":
        # another name (a hard link) of the file the flash image goes to: one file, cannot hold both images
        if not os.path.exists(opath):
            with open(opath, "w") as f:
                f.write("")
        epath = os.path.join(root, "out", "eep-linked.hex")
        os.link(opath, epath)
        earg, ew = epath, False
    else:
        earg, epath, ew = place(eloc, "eep", stem_of(fname) + ".eep.hex")
    if oarg:
        argv += ["-o", oarg if srcform == "abs" or oarg.startswith("/dev") else os.path.relpath(oarg, cwd)]
    if earg:
        argv += ["-e", earg if srcform != "rel-dir" or earg.startswith("/dev") else os.path.relpath(earg, cwd)]
    if verbose:
        argv.append("-v")
    if "source" in (oloc, eloc):
        ow = ew = False         # a run that names its source as an output is refused as a whole
    return argv, cwd, opath, epath, ow, ew


REPORT = {"flash": __import__("re").compile(r"Flash: (\d+)\((\d+)\) words\(bytes\) of (\d+)\((\d+)\)"),
          "eeprom": __import__("re").compile(r"EEPROM: (\d+) bytes of (\d+)"), "ram": __import__("re").compile(r"RAM: (\d+) bytes of (\d+)")}


def report_ok(text, lib):
    """The memory figures of the -v report against the library's result for the same source."""
    if lib["r"] != "ok":
        return True
    code, eep = len(lib["code"]) // 2, len(lib["eeprom"]) // 2          # hex strings
    ok = True
    m = REPORT["flash"].search(text)
    if m:
        ok = ok and [int(x) for x in m.groups()] == [code // 2, code, lib["fs"], lib["fs"] * 2]
    m = REPORT["eeprom"].search(text)
    if m:
        ok = ok and [int(x) for x in m.groups()] == [eep, lib["es"]]
    m = REPORT["ram"].search(text)
    if m:
        ok = ok and [int(x) for x in m.groups()] == [lib["rf"], lib["rs"]]
    return ok


def file_state(path, before, after):
    present = os.path.isfile(path) and not path.startswith("/dev/")
    changed = before.get(path) != after.get(path)
    recs = hexfiles.lex(path) if present and changed else []
    return {"present": present, "changed": changed, "recs": recs}


def check(prop, tier, seed):
    build_harness()
    scratch = Scratch(prop)
    v = Verdict(prop, tier, seed, "model_checking")
    try:
        home = scratch.sub("home")
        env = dict(os.environ, HOME=home, XDG_CONFIG_HOME=os.path.join(home, ".config"))
        os.makedirs(os.path.join(home, ".config"), exist_ok=True)
        binary = build_cli(home)
        stdinc = os.path.join(home, ".config", "avra-rs", "includes")
        rnd = random.Random(seed)
        combos = []
        srcs = [s_ for s_ in SOURCES if s_ not in SPECIAL and s_ not in ("no-eeprom", "no-ram", "small-part", "with-include")] + ["missing-source"]
        for srcname in srcs:
            for oloc in LOCS:
                for eloc in LOCS:
                    if tier == "quick" and oloc not in ("default", "writable") and eloc not in ("default", "writable") and ((zlib.crc32((srcname + oloc + eloc).encode()) + seed) % 3):
                        continue
                    for srcform in ("abs", "rel-dir", "rel-here"):
                        if tier == "quick" and srcform != ["abs", "rel-dir", "rel-here"][(len(combos)) % 3] and oloc != "default":
                            continue
                        combos.append((srcname, srcform, oloc, eloc, len(combos) % 2 == 0, "prog.asm"))
        # source file names: dotted stems, no extension, spaces, upper-case extension -- default and explicit outputs
        for fname in FILE_NAMES[1:]:
            for srcname in ("code+eeprom", "code", "fail-pass2", "eeprom-only"):
                for srcform in ("abs", "rel-dir", "rel-here"):
                    for oloc, eloc in (("default", "default"), ("writable", "default"), ("default", "writable")):
                        combos.append((srcname, srcform, oloc, eloc, False, fname))
        # a file size limit that cuts the flash file short; images beyond 1 MiB
        for srcform, eloc in (("abs", "default"), ("rel-here", "writable"), ("rel-dir", "existing")):
            combos.append(("code4k", srcform, "fsize", eloc, False, "prog.asm"))
            combos.append(("code4k", srcform, "writable", eloc, False, "prog.asm"))
        combos.append(("huge", "abs", "default", "default", False, "prog.asm"))
        combos.append(("huge", "rel-here", "writable", "default", True, "big.asm"))
        combos.append(("huge2", "rel-dir", "existing", "default", False, "prog.asm"))
        for srcname in ("no-eeprom", "no-ram", "small-part", "code+eeprom", "big"):
            combos.append((srcname, "abs", "default", "default", True, "prog.asm"))
            combos.append((srcname, "rel-here", "writable", "writable", True, "prog.asm"))
        for srcname in ("code+eeprom", "code", "fail-pass2", "with-include"):
            for srcform in ("abs", "rel-dir", "rel-here"):
                for oloc, eloc in (("default", "default"), ("writable", "default")):
                    combos.append((srcname, srcform, oloc, eloc, False, "link.asm"))
                    if srcname == "with-include":
                        combos.append((srcname, srcform, oloc, eloc, False, "prog.asm"))
        for srcname in ("code+eeprom", "code", "fail-pass2"):
            for srcform in ("abs", "rel-here"):
                combos.append((srcname, srcform, "source", "default", False, "prog.asm"))
                if srcname != "code":       # (an -e that is not needed and names the source: refusing or ignoring it are both fine)
                    combos.append((srcname, srcform, "default", "source", False, "prog.asm"))
        # the same file named for both images
        for srcname in ("code+eeprom", "code", "fail-pass2"):
            for srcform, oloc in (("abs", "writable"), ("rel-here", "default"), ("rel-dir", "existing")):
                combos.append((srcname, srcform, oloc, "sameflash", False, "prog.asm"))
                combos.append((srcname, srcform, oloc, "hardflash", False, "prog.asm"))
        runs, libjobs = [], []
        for i, (srcname, srcform, oloc, eloc, verbose, fname) in enumerate(combos):
            root = scratch.sub("r%d" % i)
            argv, cwd, opath, epath, ow, ew = scenario(root, srcname, srcform, oloc, eloc, verbose, fname)
            before = snapshot(root)
            cmd = [binary] + argv
            if oloc == "fsize":
                cmd = ["sh", "-c", "trap '' XFSZ; ulimit -f 4; exec \"$@\"", "sh"] + cmd
            p = subprocess.run(cmd, cwd=cwd, env=env, stdout=subprocess.PIPE, stderr=subprocess.PIPE, timeout=120)
            after = snapshot(root)
            others = any(before.get(k) != after.get(k) for k in set(before) | set(after) if k not in (opath, epath))
            fst = file_state(opath, before, after)
            if oloc == "fsize":
                fst["recs"] = []          # a file cut short has no meaning; the specification does not look at it
            est = file_state(epath, before, after)
            if eloc in ("sameflash", "hardflash"):
                est = {"present": False, "changed": False, "recs": []}      # there is no EEPROM file of its own
            runs.append({"argv": argv, "cwd": cwd[len(root):] or "/", "src": srcname, "oloc": oloc, "eloc": eloc,
                         "flash": fst, "eep": est,
                         "flash_writable": ow, "eep_writable": ew, "others_changed": others,
                         "exit": p.returncode, "printed": len(p.stdout) + len(p.stderr) > 0,
                         "stdout": (p.stdout + p.stderr).decode("utf-8", "replace")[:300],
                         "fulltext": (p.stdout + p.stderr).decode("utf-8", "replace")[-2000:]})
            # what the library builds for the same source, same working directory, same include set
            libroot = scratch.sub("l%d" % i)
            lname = fname if fname.isprintable() else "prog.asm"       # the library's result does not depend on the name
            files = {} if srcname == "missing-source" else {"proj/" + lname: SOURCES[srcname]}
            if srcname == "with-include":
                files["proj/defs.inc"] = ".equ variant = 2\n"
            libjobs.append({"k": "file", "id": i, "root": libroot, "files": files, "dirs": ["proj"],
                            "cwd": "" if srcform != "rel-here" else "proj",
                            "main": {"abs": libroot + "/proj/" + lname, "rel-dir": "proj/" + lname, "rel-here": lname}[srcform],
                            "paths": [stdinc]})
        lib = run_jobs(libjobs, workers=1, env=env)
        events = []
        for i, r in enumerate(runs):
            lr = lib[i]
            e = {k: r[k] for k in ("flash", "eep", "flash_writable", "eep_writable", "others_changed", "exit", "printed")}
            e["report_ok"] = report_ok(r["fulltext"], lr)
            e["lib"] = {"ok": lr["r"] == "ok", "code": unhex(lr["code"]) if lr["r"] == "ok" else [],
                        "eeprom": unhex(lr["eeprom"]) if lr["r"] == "ok" else []}
            events.append(e)
        good = [e for e in events if e["lib"]["ok"] and e["flash"]["changed"] and e["exit"] == 0 or True][:0]
        can = []
        base = next((e for e in events if e["lib"]["ok"] and e["lib"]["code"] and e["flash"]["present"] and e["flash"]["changed"]), None)
        if base:
            c = copy.deepcopy(base); c["flash"]["recs"][1]["data"][0] ^= 1; c["flash"]["recs"][1]["sum"] = (c["flash"]["recs"][1]["sum"] - 1) % 256; can.append(c)
            c = copy.deepcopy(base); c["others_changed"] = True; can.append(c)
            c = copy.deepcopy(base); c["report_ok"] = False; can.append(c)
            c = copy.deepcopy(base); c["lib"]["code"] = c["lib"]["code"] + [0, 0]; can.append(c)
        rejected, stats = validate_events(events + can, "Trace_Cli", scratch)
        ncan = sum(1 for i in range(len(events), len(events) + len(can)) if i in rejected)
        if ncan != len(can) or not can:
            raise ToolError("binding self-test failed: %d of %d corrupted runs were rejected" % (ncan, len(can)))

        def matcher(k, case):
            return False
        for i in sorted(rejected):
            if i >= len(events):
                continue
            r = runs[i]
            v.reject({"source": r["src"], "argv": r["argv"], "cwd": r["cwd"], "oloc": r["oloc"], "eloc": r["eloc"], "exit": r["exit"],
                      "printed": r["stdout"], "flash": {k: r["flash"][k] for k in ("present", "changed")},
                      "eep": {k: r["eep"][k] for k in ("present", "changed")}, "others_changed": r["others_changed"],
                      "lib_ok": events[i]["lib"]["ok"], "expected": rejected[i]}, matcher)
        v.summary(lambda x: ("lib ok" if x["lib_ok"] else "lib fails", x["source"], "flash:" + x["oloc"], "eep:" + x["eloc"], "exit %d" % x["exit"]))
        v.coverage.update({
            "states": stats["states"], "transitions": stats["transitions"], "traces_validated_against_impl": len(events),
            "evaluations": len(events), "distinct_nontrivial": len({(r["src"], tuple(r["argv"][2:])) for r in runs}),
            "rule": "%d sources (valid code / code+EEPROM / EEPROM only / empty / > 64 KiB / failing in parse, pass 2, limits, include / missing file) "
                    "x source path form (absolute, with directory, bare) x source file names (plain, dotted stem, no extension, spaces, upper case, a symbolic link) x flash output location x EEPROM output location, each of "
                    "{default next to the source, -o/-e writable, existing file, missing parent directory, a directory, /dev/full} x -v; "
                    "the figures of the -v report against the library's for parts with and without EEPROM / SRAM; the flash file named for the EEPROM image as well; a 4 KiB program under a 2 KiB file size limit (the flash file is cut short); images of 1 MiB + 6 bytes and 1 MiB + 64 KiB - 28 bytes; "
                    "distinct = distinct (source, options)" % len(srcs),
            "lib_ok_runs": sum(1 for e in events if e["lib"]["ok"]), "lib_fail_runs": sum(1 for e in events if not e["lib"]["ok"]),
            "unwritable_output_runs": sum(1 for r in runs if not r["flash_writable"] or not r["eep_writable"]),
            "rejected_events": len([i for i in rejected if i < len(events)]),
            "binding_selftest": "%d/%d corrupted runs rejected" % (ncan, len(can)),
            "tlc": stats, "exhaustive": tier == "thorough",
            "samples": [{"argv": runs[i]["argv"], "source": runs[i]["src"], "exit": runs[i]["exit"]} for i in sorted(rnd.sample(range(len(runs)), 4))],
        })
        v.assumptions += ["the binary is built from /repo with `cargo build` (debug profile)", "HOME/XDG_CONFIG_HOME point into the scratch directory",
                          "an empty flash image may or may not produce a file (statement silent); one that is produced must decode to the empty image",
                          "TLC, Json/IOUtils overrides; lexer"]
        return v.finish()
    finally:
        scratch.cleanup()
