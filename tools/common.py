"""Shared machinery of the /verif checks: build the harness, run jobs against the real
code in supervised worker processes, run TLC on traces, match known findings, write
evidence.  Standard library only."""
import hashlib
import json
import os
import random
import re
import shutil
import signal
import subprocess
import sys
import time
from concurrent.futures import ThreadPoolExecutor

VERIF = os.path.dirname(os.path.dirname(os.path.abspath(__file__)))
REPO = os.environ.get("VERIF_REPO", "/repo")
SPEC = os.path.join(VERIF, "spec")
HARNESS = os.path.join(VERIF, "harness")
DRIVE = os.path.join(HARNESS, "target", "release", "drive")
TLA_CP = "/opt/veriftools/tla/tla2tools.jar:/opt/veriftools/tla/CommunityModules-deps.jar"
MAX_TLC = int(os.environ.get("VERIF_TLC_PROCS", "12"))
MAX_WORKERS = int(os.environ.get("VERIF_WORKERS", "12"))


class ToolError(Exception):
    pass


def log(*a):
    print(*a, file=sys.stderr, flush=True)


# ---------------------------------------------------------------------------------------
# scratch space

class Scratch:
    def __init__(self, prop):
        self.dir = os.path.join(VERIF, "work", "%s-%d" % (prop, os.getpid()))
        shutil.rmtree(self.dir, ignore_errors=True)
        os.makedirs(self.dir)
        self.n = 0

    def path(self, name):
        return os.path.join(self.dir, name)

    def sub(self, name=None):
        self.n += 1
        d = os.path.join(self.dir, name or ("d%d" % self.n))
        os.makedirs(d, exist_ok=True)
        return d

    def cleanup(self):
        if os.environ.get("VERIF_KEEP"):
            return
        shutil.rmtree(self.dir, ignore_errors=True)


# ---------------------------------------------------------------------------------------
# building

def build_harness():
    """Rebuilds the harness (and with it the library under test) from /repo's working tree."""
    t0 = time.time()
    env = dict(os.environ, CARGO_NET_OFFLINE="true")
    lock = os.path.join(HARNESS, "Cargo.lock")
    if not os.path.exists(lock):
        shutil.copy(os.path.join(REPO, "Cargo.lock"), lock)
    p = subprocess.run(["cargo", "build", "--release", "--offline"], cwd=HARNESS, env=env,
                       stdout=subprocess.PIPE, stderr=subprocess.STDOUT, text=True)
    if p.returncode != 0:
        log(p.stdout[-4000:])
        raise ToolError("harness build failed")
    return time.time() - t0


def build_cli(scratch_home):
    """Builds the real command-line binary from /repo's working tree (debug profile, as
    `cargo build` gives it) into the harness target directory."""
    env = dict(os.environ, CARGO_NET_OFFLINE="true")
    tdir = os.path.join(HARNESS, "target", "cli")
    p = subprocess.run(["cargo", "build", "--offline", "--bin", "avra-rs", "--manifest-path",
                        os.path.join(REPO, "Cargo.toml"), "--target-dir", tdir], env=env,
                       stdout=subprocess.PIPE, stderr=subprocess.STDOUT, text=True)
    if p.returncode != 0:
        log(p.stdout[-4000:])
        raise ToolError("cli build failed")
    return os.path.join(tdir, "debug", "avra-rs")


# ---------------------------------------------------------------------------------------
# running jobs against the real code

def _limit(as_bytes):
    def f():
        import resource
        if as_bytes:
            resource.setrlimit(resource.RLIMIT_AS, (as_bytes, as_bytes))
        resource.setrlimit(resource.RLIMIT_CORE, (0, 0))
    return f


def _run_batch(jobs, watchdog, as_bytes, env):
    """Feeds jobs to one worker process; a job that kills the worker is recorded with the
    way it died (abort / signal / timeout) and the rest continues in a fresh worker."""
    out = []
    i = 0
    while i < len(jobs):
        data = "".join(json.dumps(j) + "\n" for j in jobs[i:])
        p = subprocess.Popen([DRIVE, str(watchdog)], stdin=subprocess.PIPE, stdout=subprocess.PIPE,
                             stderr=subprocess.DEVNULL, preexec_fn=_limit(as_bytes), env=env)
        try:
            so, _ = p.communicate(data.encode(), timeout=max(60, watchdog * 4 + len(jobs) * 0.05))
        except subprocess.TimeoutExpired:
            p.kill()
            so, _ = p.communicate()
        got = [json.loads(x) for x in so.decode("utf-8", "replace").splitlines() if x.strip().startswith("{")]
        out.extend(got)
        i += len(got)
        if i < len(jobs) and (p.returncode != 0 or len(got) == 0):
            rc = p.returncode
            how = "timeout" if rc == -signal.SIGALRM else ("signal %d" % -rc if rc is not None and rc < 0 else "exit %s" % rc)
            out.append({"id": jobs[i].get("id"), "r": "abort", "text": how})
            i += 1
        elif i < len(jobs):
            raise ToolError("worker stopped early without dying")
    return out


def run_jobs(jobs, watchdog=20, as_bytes=None, workers=None, env=None):
    """Runs jobs (dicts with unique 'id') and returns {id: result}."""
    if not jobs:
        return {}
    workers = workers or MAX_WORKERS
    env = env or os.environ
    n = max(1, min(workers, (len(jobs) + 199) // 200))
    batches = [jobs[k::n] for k in range(n)]
    with ThreadPoolExecutor(n) as ex:
        res = list(ex.map(lambda b: _run_batch(b, watchdog, as_bytes, env), batches))
    out = {}
    for r in res:
        for x in r:
            out[x["id"]] = x
    if len(out) != len(jobs):
        raise ToolError("lost results: %d of %d" % (len(out), len(jobs)))
    return out


def unhex(s):
    return list(bytes.fromhex(s))


def words_le(b):
    return [b[i] + 256 * b[i + 1] for i in range(0, len(b) - 1, 2)]


# ---------------------------------------------------------------------------------------
# TLC

TLC_STATS = re.compile(r"(\d+) states generated, (\d+) distinct states found, (\d+) states left")
TLC_DEPTH = re.compile(r"The depth of the complete state graph search is (\d+)")
TLC_REJECT = re.compile(r'^<<"REJECT", (\d+), (".*")>>$')
TLC_COVER = re.compile(r"^<(\w+) line \d+, col \d+ to line \d+, col \d+ of module (\w+)>: (\d+):(\d+)")


class TlcResult:
    def __init__(self):
        self.generated = 0
        self.distinct = 0
        self.depth = 0
        self.rejects = []      # (event index 1-based, expected (parsed json))
        self.prints = []       # other PrintT lines
        self.actions = {}
        self.ok = False
        self.out = ""
        self.wall = 0.0


_LIVE = set()


def kill_live():
    for p in list(_LIVE):
        try:
            p.kill()
        except Exception:
            pass


def run_tlc(module, cfg=None, env=None, workdir=None, timeout=1500, workers=1, xmx="2g",
            extra=None, deque=False, coverage=False):
    """Runs TLC on spec/<module>.tla; returns a TlcResult. Never raises on a property
    outcome; raises ToolError for time-outs and for TLC failing to run the spec."""
    t0 = time.time()
    meta = os.path.join(workdir, "tlc-%s-%d-%d" % (module, os.getpid(), random.randrange(1 << 30)))
    jopts = "-Xss1g -Djava.io.tmpdir=%s" % workdir      # TLC's own temporary directories go with the scratch directory
    if deque:
        jopts += " -Dtlc2.tool.queue.IStateQueue=StateDeque"
    e = dict(os.environ)
    e.update(env or {})
    e["JAVA_TOOL_OPTIONS"] = jopts
    # note: -coverage is only switched on for model-checking runs that ask for it; on the recursive
    # operators of the trace specifications its bookkeeping is pathological (minutes and gigabytes
    # for a trace that is judged in two seconds without it)
    cmd = ["timeout", "-k", "5", str(timeout), "java", "-XX:+UseParallelGC", "-XX:ParallelGCThreads=%d" % max(2, workers), "-Xmx" + xmx, "-cp", TLA_CP, "tlc2.TLC",
           "-workers", str(workers), "-metadir", meta, "-cleanup", "-noGenerateSpecTE"] + (["-coverage", "1"] if coverage else []) + [
           "-config", (cfg or module) + ".cfg"] + (extra or []) + [module + ".tla"]
    p = subprocess.Popen(cmd, cwd=SPEC, env=e, stdout=subprocess.PIPE, stderr=subprocess.STDOUT, text=True)
    _LIVE.add(p)
    try:
        stdout, _ = p.communicate()
    finally:
        _LIVE.discard(p)
    shutil.rmtree(meta, ignore_errors=True)
    r = TlcResult()
    r.out = stdout
    r.wall = time.time() - t0
    if p.returncode in (124, 137):
        raise ToolError("TLC timed out on %s" % module)
    for line in stdout.splitlines():
        m = TLC_REJECT.match(line)
        if m:
            r.rejects.append((int(m.group(1)), json.loads(json.loads(m.group(2)))))
            continue
        if line.startswith("<<"):
            r.prints.append(line)
            continue
        m = TLC_STATS.search(line)
        if m:
            r.generated, r.distinct = int(m.group(1)), int(m.group(2))
        m = TLC_DEPTH.search(line)
        if m:
            r.depth = int(m.group(1))
        m = TLC_COVER.match(line)
        if m:
            r.actions[m.group(1)] = r.actions.get(m.group(1), 0) + int(m.group(3))
    # de-duplicate rejects (an action may be evaluated more than once)
    seen = {}
    for i, x in r.rejects:
        seen[i] = x
    r.rejects = sorted(seen.items())
    r.ok = "Model checking completed. No error has been found." in stdout
    r.finished = "Model checking completed" in stdout or "Finished in" in stdout
    return r


def tlc_failed(r, what):
    tail = "\n".join(r.out.splitlines()[-40:])
    raise ToolError("TLC did not complete on %s:\n%s" % (what, tail))


def validate_events(events, module, scratch, chunk=None, timeout=1500, env=None, deque=False):
    """Trace validation: cuts events into chunks, has one single-worker TLC per chunk judge
    them (at most MAX_TLC at a time).  Returns (rejected {global index: expected},
    stats dict).  Every event is consumed (post-condition AllConsumed), else ToolError."""
    if chunk is None:
        chunk = max(200, min(20000, (len(events) + MAX_TLC - 1) // MAX_TLC))
    chunks = [events[i:i + chunk] for i in range(0, len(events), chunk)]
    return validate_chunks(chunks, module, scratch, timeout=timeout, env=env, deque=deque, chunk=chunk)


def validate_chunks(chunks, module, scratch, timeout=1500, env=None, deque=False, chunk=None, depth_offset=1):
    """Same for pre-cut chunks.  With chunk=None the rejected indices are (chunk number, index in chunk)."""
    paths = []
    for k, c in enumerate(chunks):
        p = scratch.path("trace-%s-%d.ndjson" % (module, k))
        with open(p, "w") as f:
            for ev in c:
                f.write(json.dumps(ev, separators=(",", ":")) + "\n")
        paths.append(p)

    def one(k):
        ee = dict(env or {})
        ee["TRACE"] = paths[k]
        r = run_tlc(module, env=ee, workdir=scratch.dir, timeout=timeout, deque=deque)
        if not r.ok or r.depth - depth_offset != len(chunks[k]):
            tlc_failed(r, "%s chunk %d (%d events, depth %d)" % (module, k, len(chunks[k]), r.depth))
        return r

    try:
        with ThreadPoolExecutor(MAX_TLC) as ex:
            rs = list(ex.map(one, range(len(chunks))))
    except BaseException:
        kill_live()
        raise
    rejected = {}
    stats = {"states": 0, "transitions": 0, "tlc_runs": len(rs), "actions": {}, "tlc_wall_s": 0.0}
    for k, r in enumerate(rs):
        for i, x in r.rejects:
            rejected[(k * chunk + i - 1) if chunk else (k, i - 1)] = x
        stats["states"] += r.distinct
        stats["transitions"] += r.generated
        stats["tlc_wall_s"] = round(stats["tlc_wall_s"] + r.wall, 1)
        for a, n in r.actions.items():
            stats["actions"][a] = stats["actions"].get(a, 0) + n
    for p in paths:
        if not os.environ.get("VERIF_KEEP"):
            os.remove(p)
    return rejected, stats


def model_check(module, scratch, cfg=None, workers=4, timeout=1500, xmx="4g", env=None, extra=None, coverage=True):
    r = run_tlc(module, cfg=cfg, env=env, workdir=scratch.dir, timeout=timeout, workers=workers, xmx=xmx, extra=extra,
                coverage=coverage)
    if not r.ok:
        tlc_failed(r, module)
    return {"module": module, "states": r.distinct, "transitions": r.generated, "depth": r.depth,
            "actions": r.actions, "wall_s": round(r.wall, 1)}


# ---------------------------------------------------------------------------------------
# known findings

def load_known(prop):
    p = os.path.join(VERIF, "known_findings.json")
    if not os.path.exists(p):
        return []
    with open(p) as f:
        data = json.load(f)
    return [k for k in data.get("findings", []) if prop in k.get("properties", [])]


# ---------------------------------------------------------------------------------------
# verdicts and evidence

class Verdict:
    """Collects rejected cases, sorts them into known findings and violations, prints the
    lines of the interface and writes the evidence file."""

    def __init__(self, prop, tier, seed, level):
        self.prop, self.tier, self.seed, self.level = prop, tier, seed, level
        self.t0 = time.time()
        self.violations = []       # dicts (replay content)
        self.known_hits = {}       # finding id -> count
        self.known = load_known(prop)
        self.coverage = {"samples": []}
        self.assumptions = []
        self.keyf = None

    def reject(self, case, matcher=None):
        """case: dict describing the rejected behaviour. matcher(finding, case) decides
        whether a known finding explains it."""
        for k in self.known:
            if matcher and matcher(k, case):
                self.known_hits[k["id"]] = self.known_hits.get(k["id"], 0) + 1
                return
        self.violations.append(case)

    def summary(self, keyf):
        self.keyf = keyf
        c = {}
        for x in self.violations:
            k = keyf(x)
            c[k] = c.get(k, 0) + 1
        for k in sorted(c, key=str):
            log("  rejected %6d  %s" % (c[k], k))

    def pick_cases(self):
        """Up to 200 cases for the replay file, at most 3 per summary key so that every
        kind of violation is represented."""
        if not self.keyf:
            return self.violations[:50]
        per, out = {}, []
        for x in self.violations:
            k = str(self.keyf(x))
            per[k] = per.get(k, 0) + 1
            if per[k] <= 3 and len(out) < 200:
                out.append(x)
        return out

    def finish(self):
        os.makedirs(os.path.join(VERIF, "evidence"), exist_ok=True)
        os.makedirs(os.path.join(VERIF, "replays"), exist_ok=True)
        for k in self.known:
            if k["id"] in self.known_hits:
                print("KNOWN-FINDING: property=%s %s (%d cases this run)" % (self.prop, k["what"], self.known_hits[k["id"]]))
        replay = None
        if self.violations:
            replay = os.path.join(VERIF, "replays", "%s-%s-seed%d.json" % (self.prop, self.tier, self.seed))
            with open(replay, "w") as f:
                json.dump({"property": self.prop, "tier": self.tier, "seed": self.seed,
                           "count": len(self.violations), "cases": self.pick_cases()}, f, indent=1)
        cov = dict(self.coverage)
        cov["known_findings_hit"] = self.known_hits
        ev = {"property_id": self.prop, "tier": self.tier, "seed": self.seed, "level": self.level,
              "coverage": cov, "assumptions": self.assumptions,
              "wall_s": round(time.time() - self.t0, 1), "violations": len(self.violations)}
        with open(os.path.join(VERIF, "evidence", "%s.json" % self.prop), "w") as f:
            json.dump(ev, f, indent=1)
        if self.violations:
            v = self.violations[0]
            log("first violation: %s" % json.dumps(v)[:1500])
            print("VIOLATION property=%s replay=%s" % (self.prop, replay))
            return 1
        print("OK property=%s tier=%s seed=%d wall=%.1fs %s" % (
            self.prop, self.tier, self.seed, time.time() - self.t0,
            json.dumps({k: v for k, v in cov.items() if isinstance(v, (int, bool))})))
        return 0


def stable_hash(x):
    return hashlib.sha1(json.dumps(x, sort_keys=True).encode()).hexdigest()[:12]
