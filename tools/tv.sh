#!/bin/sh
# tv.sh <Module> <trace.ndjson> [timeout]: run one trace validation by hand
cd /verif/spec && TRACE="$2" timeout ${3:-120} java -XX:+UseParallelGC -XX:ParallelGCThreads=2 -Xss1g -Xmx2g -cp /opt/veriftools/tla/tla2tools.jar:/opt/veriftools/tla/CommunityModules-deps.jar tlc2.TLC -workers 1 -metadir /verif/work/t$$ -cleanup -noGenerateSpecTE -config $1.cfg $1.tla 2>&1 | grep -v "^Linting\|^Semantic\|^Parsing"; rm -rf /verif/work/t$$
