"""C16: no input makes the assembler panic, abort, overflow its stack, hang or allocate without bound.
The input space (heads x operand dictionary) is defined by Api.tla and exported by TLC; the harness
walks the product in supervised worker processes (watchdog, address-space limit); seeded multi-line
token soups and mutations of valid programs are added; TLC (Trace_Api) checks completeness of the
enumeration and accepts only ok / err outcomes."""
import glob
import json
import os
import random

from common import *
import isa as isamod
import asm as asmmod
from prog import render

AS_LIMIT = 2 << 30       # bytes of address space per worker
SMALL_AS_LIMIT = 48 << 20   # ... when a small device is selected
WATCHDOG = 20            # seconds per job (the slowest job of the unchanged tree takes about 3 s on a loaded machine)


def export(scratch):
    r = run_tlc("Export_Api", workdir=scratch.dir, timeout=120)
    for line in r.prints:
        if line.startswith('<<"TABLE", '):
            return json.loads(json.loads(line[len('<<"TABLE", '):-2]))
    tlc_failed(r, "Export_Api")


def classify(r):
    if r["r"] in ("ok", "err", "panic"):
        return r["r"]
    if r["r"] == "abort":
        t = r.get("text", "")
        return "timeout" if t == "timeout" else "abort"
    return r["r"]


def soups(rnd, heads, dct, n):
    out = []
    for _ in range(n):
        lines = []
        for _ in range(rnd.randrange(2, 12)):
            h = rnd.choice(heads)
            ops = [rnd.choice(dct) for _ in range(rnd.randrange(0, 4))]
            lines.append(h + " " + ", ".join(ops))
        out.append("\n".join(lines) + "\n")
    return out


def valid_corpus(rnd):
    texts = []
    for p in sorted(glob.glob(os.path.join(REPO, "tests", "*.asm")) + glob.glob(os.path.join(REPO, "tests", "*.inc"))):
        with open(p, encoding="utf-8", errors="replace") as f:
            texts.append(f.read())
    devs = ["", "ATmega48", "ATtiny20"]
    for c in asmmod.gen_layout_random(rnd, 40, devs):
        texts.append(c.src)
    for _ in range(40):
        texts.append(render(asmmod.sym_program(rnd, rnd.randrange(4, 12))))
    structs = [s for n in range(3, 7) for s in asmmod.cond_structures(n, 3) if any(isinstance(x, tuple) for x in s)]
    for _ in range(40):
        texts.append(render(asmmod.cond_program(rnd.choice(structs), lambda i, o: rnd.choice(o))))
    texts.append(".macro m\nldi @0, @1\n.endm\nm r16, 1+2\nm r17, (3)\n")
    texts.append(".macro deep\ndeep\n.endm\ndeep\n")                         # unbounded macro recursion
    # self- and mutually recursive macros, with everything a body may do before calling itself again
    for pre in ("nop", ".dseg\n.byte 1\n.cseg", ".eseg\n.db 1\n.cseg", ".org 0x100", ".cseg", "nop\n.cseg\nnop", ".if 1\nnop\n.endif",
                ".dseg\n.cseg\n.eseg\n.cseg", "nop\n.org 0x20\nnop\n.dseg\n.byte 2\n.cseg"):
        texts.append(".macro m\n%s\nm\n.endm\nm\n" % pre)
        texts.append(".macro m\nm\n%s\n.endm\nm\n" % pre)
        texts.append(".macro a\n%s\nb\n.endm\n.macro b\n%s\na\n.endm\na\n" % (pre, pre))
        texts.append(".macro m\n%s\nm @0\n%s\nm @0\n.endm\nm r1\n" % (pre, pre))
    texts.append(".equ a = b\n.equ b = a\nldi r16, a\n")
    texts.append(".equ lowest = 1 << 63\n.equ m1 = -1\n.if lowest % m1\nnop\n.endif\n.dw lowest / m1\n")
    texts.append("ldi r16, " + "(" * 3000 + "1" + ")" * 3000 + "\n")           # deep nesting
    texts.append("ldi r16, " + "-" * 5000 + "1\n")
    texts.append("ldi r16, 1" + "+1" * 20000 + "\n")
    for n in (300, 2000, 20000, 32000):
        texts.append("ldi r16, " + "(" * n + "1" + ")" * n + "\n")
        texts.append("ldi r16, " + "-" * n + "1\n")
        texts.append("ldi r16, " + "!~" * (n // 2) + "1\n")
        texts.append(".dq 1" + "+1" * n + "\n")
        texts.append(".dq " + "low(" * (n // 4) + "1" + ")" * (n // 4) + "\n")
        texts.append(".if 0\n" + "(" * n + "\n.endif\n.macro m\n" + "-" * n + "\n.endm\nnop\n")
        texts.append(".db " + ", ".join(["1+2"] * (n // 4)) + "\n")
    texts.append("".join(".equ a%d = a%d + a%d\n" % (i + 1, i, i) for i in range(60)) + ".equ a0 = 1\n.dq a60\n")
    texts.append("".join(".equ a%d = a%d * a%d\n" % (i + 1, i, i) for i in range(60)) + ".equ a0 = 3\n.dq a60\n")
    texts.append(".macro m\nm @0+@0\n.endm\nm 1\n")
    texts.append(".macro m\nm @0, @0\n.endm\nm 1\n")
    texts.append(".macro m\n.db @0\nm \"@0@0\"\n.endm\nm 1\n")
    texts.append(".macro m\n.includepath \"rel\"\n.include \"nothing.inc\"\n.endm\nm\n")
    texts.append(".org 0xFFFFFFFF\nnop\n")
    texts.append(".eseg\n.org 0xFFFFFFFF\n.db 1, 2\n")
    texts.append(".org 0xFFFFFFFF\njmp 0\n")
    texts.append(".eseg\n.byte 2000000000\n")                                 # reservation far beyond any device
    texts.append(".dseg\n.byte 2000000000\n.byte 2000000000\n.byte 2000000000\n")
    texts.append(".org 4000000000\nnop\n")
    texts.append(".eseg\n.org 4000000000\n.db 1\n")
    return texts


def families():
    """Resource-shaped inputs, each a family over a size parameter: what grows with the input must grow in proportion,
    what recurses must be bounded.  Every member is also run in a thread with a small stack."""
    t = []
    for n in (10, 30, 50, 60, 63, 64, 65, 80, 100, 150, 250, 400):
        t.append("ldi r16, " + "-(1+" * n + "1" + ")" * n + "\n")
        t.append("ldi r16, " + "low(-(" * n + "1" + "))" * n + "\n")
        t.append("ldi r16, " + "(" * n + "1" + ")" * n + "\n")
        t.append(".dw " + "~(2*" * n + "1" + ")" * n + "\n")
        t.append("ldi r16, 1" + "+1" * n + "\n")
        t.append("ldi r16, 1" + "".join(("+", "-", "*", "|", "<<", "==")[i % 6] + "1" for i in range(n)) + "\n")
        t.append(".if 0\n.dw " + "(" * n + "1" + ")" * n + " ; a.b\n.endif\nnop\n")            # dotted lines of a skipped branch
        t.append(".if 0\n#define X " + "-(1+" * n + "1" + ")" * n + "\n.endif\nnop\n")
        t.append(".ifdef nothing\nlbl: .db " + "(" * n + "1" + ")" * n + ", \"a.b\"\n.else\nnop\n.endif\n")
        t.append(".if 1\nnop\n.else\n.equ v = " + "-(" * n + "1" + ")" * n + "\n.endif\n")
        t.append(".macro m\n.dw " + "(" * n + "@0" + ")" * n + "\n.endm\nm 1\n")
        # character constants that look like the start of a comment or of a string must not switch the guard off
        for ch in ("';'", "'\"'", "'('", "'\\''"):
            t.append("ldi r16, " + ch + "+(" * n + "1" + ")" * n + "\n")
            t.append(".db " + ch + ", " + "-(1+" * n + "1" + ")" * n + "\n")
        t.append(".db \"" + "(" * n + "\", " + "(" * n + "1" + ")" * n + "\n")
    # one name for two symbols of every pair of kinds, in both orders, then a use
    kinds = {"label": "%s: nop\n", "equ": ".equ %s = 5\n", "set": ".set %s = 4\n", "def": ".def %s = r16\n", "define": ".define %s\n", "macro": ".macro %s\nnop\n.endm\n",
             "set2": ".set %s = %s + 1\n".replace("%s + 1", "1 + 1"), "undef": ".undef %s\n"}
    for nme in ("loop", "tmp", "pc", "r5", "x", "low", "Zh", "nop"):
        for k1, t1 in kinds.items():
            for k2, t2 in kinds.items():
                for use in ("ldi r16, %s\n", "mov %s, r1\n", ".dw %s\n", "%s\n"):
                    t.append((t1 % nme) + (t2 % nme) + (use % nme))
    # lines of a branch that is passed over: indented, with colons, with text no grammar takes, with multi-byte characters
    for indent in ("", " ", "\t", "        ", " \t  ", "\u00a0", "\x0c"):
        for body in ("foo: ?", "x:", ": :", "é: .if 1", "lbl: .endif ?", ".if @0 ; note: x", "a b c: d", ".else: x", "\u20ac\u20ac: ?", ".endif", "#endif :", "l1: l2: .if", "::::"):
            t.append(".if 0\n" + indent + body + "\n.endif\nnop\n")
            t.append(".if 1\nnop\n.else\n" + indent + body + "\n" + indent + ".endif\nret\n")
            t.append(".ifdef NOPE\n.macro m\n" + indent + body + "\n.endm\n.endif\nsleep\n")
    # functions of negative, zero and extreme values, where lines are assembled and where conditions are read
    for f in ("low", "high", "byte2", "byte3", "byte4", "lwrd", "hwrd", "page", "exp2", "log2", "abs", "nosuchfn"):
        for a in ("-1", "0", "1", "-128", "1<<63", "(1<<63)-1", "-(1<<62)", "63", "64", "-64", "size - 4"):
            t.append(".equ size = 3\nldi r16, %s(%s) & 0\n.dw %s(%s) & 0\n" % (f, a, f, a))
            t.append(".equ size = 3\n.if %s(%s) > 8\nnop\n.endif\n.dseg\n.byte %s(%s) & 3\n" % (f, a, f, a))
    # prefix operators spread over names, parentheses and character constants; long subtractions of character constants (legal)
    for n in (4, 16, 64, 200):
        for k in (3, 20, 62):
            t.append(" ldi r16, " + ("~" * k + "low(") * n + "1" + ")" * n + "\n")
            t.append(" .dw " + ("-" * k + "(") * n + "1" + ")" * n + ", " + ("!" * k + "hwrd(") * n + "1" + ")" * n + "\n")
            t.append(".if 0\n.if " + ("~" * k + "low(") * n + "1" + ")" * n + "\n.endif\n.endif\nnop\n")
        t.append(" ldi r16, (" + "-".join(["'a'"] * n) + ") & 1\n")
    # long messages multiplied by nested macros
    for width, levels in ((30000, 4), (3000, 5), (60000, 3)):
        src = ".device ATtiny13\n.macro a\n.message \"" + "x" * width + "\"\n.endm\n"
        prev = "a"
        for nm in "bcdef"[:levels]:
            src += ".macro %s\n" % nm + (prev + "\n") * 10 + ".endm\n"
            prev = nm
        t.append(src + prev + "\n")
    # literals no 64-bit value can hold, in every radix, also where the line is not assembled
    for lit_ in ("0x8000000000000000", "0xFFFFFFFFFFFFFFFFF", "$ffffffffffffffff", "9223372036854775808", "99999999999999999999999999", "0b1" + "0" * 63, "0b" + "1" * 80,
                 "01000000000000000000000", "07777777777777777777777", "0777777777777777777777777777", "0" * 40 + "7" * 30):
        for ctx in ("ldi r16, %s\n", ".dw %s\n", ".equ big = %s\n.dw 1\n", ".if %s\nnop\n.endif\n", ".if 0\n.dw %s\n.endif\n", ".macro m\n.dw %s\n.endm\nnop\n",
                    ".macro m\n.dw @0\n.endm\nm %s\n", ".org %s\n", ".dseg\n.byte %s\n", "ldd r0, Y+%s\n", ".if 1\n.elif %s\n.endif\n", ".db -%s, low(%s)\n".replace("%s)", "%s)")):
            t.append(ctx.replace("%s", lit_))
    for n in (100, 300, 1000, 2500, 10000):
        # chains of definitions that go through a function, a prefix operator, parentheses
        for wrap in ("lwrd(a%d)+1", "-(a%d)", "(a%d)", "~a%d", "low(a%d+1)", "1+high(a%d)*2", "exp2(a%d & 3)"):
            t.append("ldi r16, low(a0)\n" + "".join(".equ a%d = %s\n" % (i, wrap % (i + 1)) for i in range(n)) + ".equ a%d = 1\n" % n)
    for n in (100, 300, 1000, 3000, 10000):
        # chains of definitions, defined before and after use, written in lower, upper and mixed case
        t.append(".equ a0 = 1\n" + "".join(".equ a%d = a%d+1\n" % (i + 1, i) for i in range(n)) + "ldi r16, low(a%d)\n" % n)
        t.append("ldi r16, low(a0)\n" + "".join(".equ a%d = a%d+1\n" % (i, i + 1) for i in range(n)) + ".equ a%d = 1\n" % n)
        t.append("ldi r16, low(A0)\n" + "".join(".equ A%d = a%d+1\n" % (i, i + 1) for i in range(n)) + ".equ a%d = a5\n" % n)
        t.append(".set a0 = 1\n" + "".join(".set a%d = a%d+1\n" % (i + 1, i) for i in range(n)) + ".dw a%d\n" % n)
        t.append("".join("l%d: .dw l%d\n" % (i, i + 1) for i in range(n)) + "l%d: nop\n" % n)
    for n in (20, 40, 60, 200):
        for a, b in (("v", "v"), ("V", "V"), ("V", "v"), ("v", "V"), ("Val", "vAL")):
            for op in ("+", "|", "*"):
                t.append("".join(".equ %s%d = %s%d %s %s%d\n" % (a, i + 1, b, i, op, b, i) for i in range(n)) + ".equ %s0 = 1\n.dq %s%d\n" % (a, b, n))
                t.append(".equ %s0 = 1\n" % a + "".join(".equ %s%d = (%s%d %s %s%d) & 0xffff\n" % (a, i + 1, b, i, op, a, i) for i in range(n)) + ".dw %s%d\n" % (b, n))
    # macro expansion: the budget of calls is one per build, expansion is linear in what it produces
    for dev in ("", ".device ATtiny13\n"):
        t.append(dev + ".macro a\nnop\n.endm\n" + "".join(".macro %s\n%s\n.endm\n" % (chr(98 + i), "\n".join([chr(97 + i)] * 8)) for i in range(7)) + "h\n")
        t.append(dev + ".macro a\nnop\nnop\nnop\nnop\n.endm\n.macro b\n" + "a\n" * 300 + ".endm\n.macro c\n" + "b\n" * 300 + ".endm\n" + "c\n" * 30)
        t.append(dev + ".macro m\nnop\n.endm\n" + ("m\n" * 2000 + ".org pc+1\n") * 30)
        t.append(dev + ".macro m\nnop\n.endm\n.macro k\n" + "m\n" * 1000 + ".endm\n" + ("k\n" * 40 + ".cseg\n.org pc + 2\n") * 12)
        t.append(dev + ".macro m\n.dseg\n.byte 1\n.cseg\nnop\n.endm\n" + "m\n" * 20000)
        t.append(dev + ".macro m\n.db " + "@0" * 20000 + "\n.endm\nm " + "a" * 20000 + "\n")
        t.append(dev + ".macro m\n.db " + ",".join(["@0"] * 16000) + "\n.endm\nm " + "+".join(["1"] * 8000) + "\n")
        t.append(dev + ".macro m\n.db " + "@0@1@2@3@4@5@6@7@8@9" * 3000 + "\n.endm\nm " + ", ".join(["1" * 6000] * 10) + "\n")
        # few calls, many lines: 100 x 100 x 8000
        t.append(dev + ".macro a\n" + "nop\n" * 8000 + ".endm\n.macro b\n" + "a\n" * 100 + ".endm\n.macro c\n" + "b\n" * 100 + ".endm\n" + "c\n" * 19)
        t.append(dev + ".macro a\n" + ".equ q = 1\n" * 4000 + ".endm\n.macro b\n" + "a\n" * 200 + ".endm\n" + "b\n" * 900)
        t.append(dev + "nop\n" * 30000)
        t.append(dev + ".db " + ", ".join(["1"] * 30000) + "\n")
    return t


def hostile_trees():
    """File trees for build_file: inclusion that never ends, files that never end, things that are not files."""
    trees = []
    trees.append(({"main.asm": ".include \"main.asm\"\nnop\n"}, "main.asm"))
    trees.append(({"main.asm": "nop\n.include \"a.inc\"\n", "a.inc": "nop\n.include \"b.inc\"\n", "b.inc": ".include \"a.inc\"\n"}, "main.asm"))
    trees.append(({"main.asm": ".include \"sub/a.inc\"\n", "sub/a.inc": ".include \"a.inc\"\nnop\n"}, "main.asm"))
    trees.append(({"main.asm": ".macro m\n.include \"a.inc\"\n.endm\nm\n", "a.inc": "nop\nm\n"}, "main.asm"))
    trees.append(({"main.asm": ".if 1\n.include \"main.asm\"\n.endif\n"}, "main.asm"))
    trees.append(({"main.asm": ".include \"/dev/zero\"\nnop\n"}, "main.asm"))
    trees.append(({"main.asm": ".include \"/dev/urandom\"\nnop\n"}, "main.asm"))
    trees.append(({"main.asm": ".include \"/\"\nnop\n"}, "main.asm"))
    trees.append(({"main.asm": ".include \".\"\nnop\n"}, "main.asm"))
    trees.append(({"main.asm": ".include \"\"\nnop\n"}, "main.asm"))
    trees.append(({"main.asm": ".includepath \"/dev\"\n.include \"zero\"\n"}, "main.asm"))
    trees.append(({"main.asm": "".join(".include \"i%d.inc\"\n" % i for i in range(200)), **{"i%d.inc" % i: "nop\n" for i in range(200)}}, "main.asm"))
    trees.append(({"main.asm": ".include \"i0.inc\"\n", **{"i%d.inc" % i: "nop\n.include \"i%d.inc\"\n" % (i + 1) for i in range(20)}, "i20.inc": "nop\n"}, "main.asm"))
    trees.append(({"main.asm": ".include \"i0.inc\"\n", **{"i%d.inc" % i: "nop\n.include \"i%d.inc\"\n" % (i + 1) for i in range(400)}, "i400.inc": "nop\n"}, "main.asm"))
    trees.append(({"main.asm": ".include \"pipe\"\nnop\n", "pipe": "<fifo>"}, "main.asm"))            # a pipe nobody writes to
    trees.append(({"main.asm": ".includepath \"d\"\n.include \"x\"\nnop\n", "x/keep": "", "d/x": "ret\n"}, "main.asm"))   # a directory of the included name
    # files that include the next one twice: depth stays small, the number of files read doubles per level
    for levels in (12, 20, 31):
        fs = {"main.asm": ".include \"f0.inc\"\nnop\n", "f%d.inc" % levels: "nop\n"}
        for i in range(levels):
            fs["f%d.inc" % i] = ".include \"f%d.inc\"\n.include \"f%d.inc\"\n" % (i + 1, i + 1)
        trees.append((fs, "main.asm"))
    # a long file included from a macro body that is called many times
    trees.append(({"main.asm": ".macro m\n.include \"big.inc\"\n.endm\n" + "m\n" * 2000, "big.inc": "; c\n" * 20000}, "main.asm"))
    trees.append(({"main.asm": ".macro m\n.include \"big.inc\"\n.endm\n.macro k\n" + "m\n" * 300 + ".endm\n" + "k\n" * 300, "big.inc": ".equ q = 1\n" * 3000}, "main.asm"))
    trees.append(({}, "/dev/zero"))
    trees.append(({}, "/"))
    trees.append(({}, ""))
    return trees


SMALL_STACK = 256 << 10     # bytes; the harness is optimised, its frames are an order of magnitude smaller than those of a debug build


def mutate(rnd, text):
    kind = rnd.randrange(8)
    b = bytearray(text.encode("utf-8"))
    if kind == 0 and b:                         # byte flips
        for _ in range(rnd.randrange(1, 6)):
            b[rnd.randrange(len(b))] = rnd.randrange(256)
    elif kind == 1 and b:                       # truncation
        b = b[:rnd.randrange(len(b))]
    elif kind == 2:                             # line deletion / duplication / shuffle
        ls = text.split("\n")
        rnd.shuffle(ls) if rnd.random() < 0.3 else ls.pop(rnd.randrange(len(ls)))
        if ls and rnd.random() < 0.5:
            ls.insert(rnd.randrange(len(ls) + 1), rnd.choice(ls))
        b = bytearray("\n".join(ls).encode("utf-8"))
    elif kind == 3:                             # token deletion / duplication
        toks = text.replace(",", " , ").split(" ")
        if toks:
            i = rnd.randrange(len(toks))
            toks[i:i + 1] = [] if rnd.random() < 0.5 else [toks[i], toks[i]]
        b = bytearray(" ".join(toks).encode("utf-8"))
    elif kind == 4 and b:                       # insert hostile bytes
        i = rnd.randrange(len(b))
        b[i:i] = rnd.choice([b"\x00", b"\xff\xfe", b"\"", b"'", b"(", b"@", b"\r", b"/*", b"9" * 30, b".macro x\n", b".if 1\n", b".endif\n", b".endm\n"])
    elif kind == 5:                             # repeat up to 64 KiB
        while 0 < len(b) < 60000:
            b = b + b
        b = b[:65536]
    elif kind == 6:                             # upper-case everything
        b = bytearray(text.upper().encode("utf-8"))
    else:                                       # glue two lines
        b = bytearray(text.replace("\n", " ", 1 + rnd.randrange(3)).encode("utf-8"))
    return b.decode("utf-8", "replace")


def check(prop, tier, seed):
    build_harness()
    scratch = Scratch(prop)
    v = Verdict(prop, tier, seed, "exploration")
    try:
        rnd = random.Random(seed)
        tab = export(scratch)
        heads, dct = tab["heads"], tab["dict"]
        arity = 2 if tier == "quick" else 3
        pre = ""
        jobs = [{"k": "product", "id": i, "head": h, "dict": dct, "arity": arity, "pre": pre} for i, h in enumerate(heads)]
        res = run_jobs(jobs, watchdog=600, as_bytes=AS_LIMIT)
        events, details = [], []
        redo = []
        for i, h in enumerate(heads):
            r = res[i]
            if r["r"] != "ok":
                redo.append(h)
                continue
            for g in r["groups"]:
                events.append({"ev": "group", "head": h, "first": g["first"], "arity": arity, "count": g["count"], "ok": g["ok"],
                               "err": g["err"], "other": [o["outcome"] for o in g["other"]]})
                details.append(g["other"])
        # a head whose product walk killed the worker is replayed case by case to find the text that did it
        for h in redo:
            singles = [h + " "] + [h + " " + a for a in dct] + [h + " " + a + ", " + b for a in dct for b in dct]
            if arity == 3:
                singles += [h + " " + a + ", " + b + ", " + c for a in dct for b in dct for c in dct]
            sres = run_jobs([{"k": "str", "id": j, "src": s_ + "\n"} for j, s_ in enumerate(singles)], watchdog=WATCHDOG, as_bytes=AS_LIMIT)
            for j, s_ in enumerate(singles):
                events.append({"ev": "case", "outcome": classify(sres[j])})
                details.append([{"src": s_ + "\n", "outcome": classify(sres[j]), "text": sres[j].get("text", "")}])
        # every head with at most one operand in every context (a skipped branch, an assembled branch, a macro body, ...)
        ctx_texts = []
        for pre_, post_ in tab["contexts"][1:]:
            for h in heads:
                ctx_texts.append(pre_ + h + post_)
                for a in dct:
                    ctx_texts.append(pre_ + h + " " + a + post_)
        cres = run_jobs([{"k": "str", "id": j, "src": t, "nohex": True} for j, t in enumerate(ctx_texts)], watchdog=WATCHDOG, as_bytes=AS_LIMIT)
        for j, t in enumerate(ctx_texts):
            oc = classify(cres[j])
            events.append({"ev": "case", "outcome": oc})
            details.append([{"src": t, "outcome": oc, "text": cres[j].get("text", "")}])
        # resource-shaped families and the valid corpus in a thread with a small stack; hostile file trees
        fam = families()
        small = fam + valid_corpus(random.Random(seed))
        sres = run_jobs([{"k": "str", "id": j, "src": t, "nohex": True, "stack": SMALL_STACK} for j, t in enumerate(small)], watchdog=WATCHDOG, as_bytes=AS_LIMIT)
        for j, t in enumerate(small):
            oc = classify(sres[j])
            events.append({"ev": "case", "outcome": oc})
            details.append([{"src": t if len(t) < 2000 else t[:2000] + "...", "outcome": oc,
                             "text": "thread with a %d KiB stack; %s" % (SMALL_STACK >> 10, sres[j].get("text", ""))}])
        trees = hostile_trees()
        tjobs = []
        for j, (files, main) in enumerate(trees):
            tjobs.append({"k": "file", "id": j, "root": scratch.sub("tree%d" % j), "files": {k: v for k, v in files.items() if v != "<fifo>"},
                          "fifos": [k for k, v in files.items() if v == "<fifo>"], "cwd": "", "main": main, "paths": []})
        tres = run_jobs(tjobs, watchdog=WATCHDOG, as_bytes=AS_LIMIT, workers=4)
        for j, (files, main) in enumerate(trees):
            oc = classify(tres[j])
            events.append({"ev": "case", "outcome": oc})
            details.append([{"src": "build_file(%r) in a directory with %s" % (main, json.dumps(files)[:1500]), "outcome": oc, "text": tres[j].get("text", "")}])
        nprod = sum(e.get("count", 1) for e in events)
        # multi-line: token soups and mutations of valid programs
        texts = soups(rnd, heads, dct, 4000 if tier == "quick" else 100000)
        corpus = valid_corpus(rnd)
        texts += corpus + fam
        for _ in range(12000 if tier == "quick" else 300000):
            texts.append(mutate(rnd, rnd.choice(corpus)))
        mres = run_jobs([{"k": "str", "id": j, "src": t, "nohex": True} for j, t in enumerate(texts)], watchdog=WATCHDOG, as_bytes=AS_LIMIT)
        slow = 0
        for j, t in enumerate(texts):
            oc = classify(mres[j])
            if mres[j].get("us", 0) > 5_000_000:
                slow += 1
            events.append({"ev": "case", "outcome": oc})
            details.append([{"src": t if len(t) < 2000 else t[:2000] + "...", "outcome": oc, "text": mres[j].get("text", "")}])
        # memory in proportion to the device: with a small device selected, reservations, origins and data far beyond its
        # memories must be refused within a small address space (the worker itself needs about 20 MiB of it)
        hogs = []
        for dev in ("ATtiny2313", "ATtiny13", "ATmega48", "AT90S1200"):
            for body in (".eseg\n.byte 0x2000000\n", ".eseg\n.byte 0x1000000\n.byte 0x1000000\n.byte 0x1000000\n", ".dseg\n.byte 0x7fffffff\n",
                         ".org 0x2000000\nnop\n", ".eseg\n.org 0x2000000\n.db 1\n", ".eseg\n.db 1\n.cseg\nnop\n.eseg\n.byte 0x3000000\n",
                         ".macro m\n.eseg\n.byte 0x2000000\n.endm\nm\n", ".org 0x1000000\n.db \"x\"\n.org 0x2000000\n.dw 1\n"):
                hogs.append(".device %s\n%s" % (dev, body))
        # a body line naming one parameter thousands of times, called with a very long (valid) argument: refused before the text is built
        for reps, arglen in ((8000, 32000), (20000, 20000), (2000, 60000), (30000, 2000)):
            hogs.append(".macro m\n.db " + ",".join(["@0"] * reps) + "\n.endm\nm " + "a" * arglen + "\n")
            hogs.append(".macro m\n.db @1+" + "+".join(["@0"] * reps) + "\n.endm\nm " + "sym_" + "b" * arglen + ", 1\n")
        hres = run_jobs([{"k": "str", "id": j, "src": t, "nohex": True} for j, t in enumerate(hogs)], watchdog=WATCHDOG, as_bytes=SMALL_AS_LIMIT, workers=4)
        for j, t in enumerate(hogs):
            oc = classify(hres[j])
            if oc == "abort":
                oc = "oom"
            events.append({"ev": "case", "outcome": oc})
            details.append([{"src": t, "outcome": oc, "text": "address space limited to %d MiB; %s" % (SMALL_AS_LIMIT >> 20, hres[j].get("text", ""))}])
        texts = texts + hogs
        can = [{"ev": "case", "outcome": "panic"}, {"ev": "group", "head": heads[0], "first": 0, "arity": arity, "count": 3, "ok": 3, "err": 0, "other": []},
               {"ev": "group", "head": heads[0], "first": -1, "arity": arity, "count": 1, "ok": 0, "err": 0, "other": ["abort"]}]
        rejected, stats = validate_events(events + can, "Trace_Api", scratch)
        ncan = sum(1 for i in range(len(events), len(events) + len(can)) if i in rejected)
        if ncan != len(can):
            raise ToolError("binding self-test failed: %d of %d corrupted events were rejected" % (ncan, len(can)))

        def matcher(k, case):
            m = k.get("match", {})
            if m.get("kind") == "text-contains":
                return any(x in case["source"] for x in m["any"]) and case["outcome"] in m["outcomes"]
            return False
        for i in sorted(rejected):
            if i >= len(events):
                continue
            for o in details[i]:
                v.reject({"source": o["src"], "outcome": o["outcome"], "text": (o.get("text") or "")[:300]}, matcher)
            if not details[i]:
                v.reject({"source": "group %s" % json.dumps(events[i]), "outcome": "incomplete", "text": ""}, matcher)
        v.summary(lambda x: (x["outcome"], (x["text"] or "")[:70]))
        v.coverage.update({
            "evaluations": nprod + len(texts), "distinct_nontrivial": nprod + len({t for t in texts if t.strip()}) - len(heads),
            "rule": "bounded-exhaustive: every single-line program `head op, ...` with up to %d operands from the %d-entry dictionary for each of the %d heads "
                    "(Api!Heads x Api!Dict, exported by TLC; completeness of every group checked by TLC); every head with at most one operand in each of "
                    "the contexts of Api!Contexts (skipped branch, assembled branch, .elif position, macro body, other segments, small devices); "
                    "resource hogs under small devices in a 48 MiB address space; size-parameterised families (nesting, operator chains, guard-fooling character constants, "
                    "chains of definitions in every letter case, doubling definitions, macro fan-out, substitution blow-up) and the valid corpus once more in a thread with a small stack; "
                    "file trees that include themselves, /dev/zero, directories; plus %d multi-line texts: token soups, "
                    "valid programs (repository fixtures and generated), seeded byte/token/line mutations of them up to 64 KiB, and hand-made "
                    "resource hogs; non-trivial = has at least one operand / is not blank; distinct counted on source text" % (arity, len(dct), len(heads), len(texts)),
            "single_line_programs": nprod, "context_programs": len(ctx_texts), "small_device_resource_hogs": len(hogs), "multi_line_texts": len(texts),
            "small_stack_programs": len(small), "small_stack_bytes": SMALL_STACK, "resource_families": len(fam), "hostile_file_trees": len(trees), "heads": len(heads), "dictionary": len(dct), "arity": arity,
            "groups_judged": sum(1 for e in events if e["ev"] == "group"), "tlc": stats,
            "slower_than_5s": slow, "slowest_job_s": round(max([r_.get("us", 0) for grp in (sres, mres, tres, hres, cres) for r_ in grp.values()] + [0]) / 1e6, 2), "limits": {"address_space_bytes": AS_LIMIT, "watchdog_s": WATCHDOG},
            "rejected_events": len([i for i in rejected if i < len(events)]),
            "binding_selftest": "%d/%d corrupted events rejected" % (ncan, len(can)),
            "exhaustive": True, "exhaustive_note": "the single-line product is complete; the multi-line part is sampled",
            "samples": [{"source": t[:200]} for t in rnd.sample(texts, 4)] + [{"source": heads[3] + " " + dct[5] + ", " + dct[30]}],
        })
        v.assumptions += ["a build counts as prompt if it ends within %d s and as proportionate if it stays within %d GiB of address space" % (WATCHDOG, AS_LIMIT >> 30),
                          "harness profile: release with overflow-checks on (arithmetic overflow panics as in a default cargo build)"]
        return v.finish()
    finally:
        scratch.cleanup()
