"""C01 / C04 / C13 / (C03 single-instruction part): instruction-level cases.
Operand tuples are enumerated from the tables TLC exports from AvrIsa.tla; every case is
one build of one instruction through build_str; Trace_Isa (TLC) is the judge."""
import itertools
import json
import random

from common import *

HUGE = [(1 << 31), (1 << 32) + 5, (1 << 40), (1 << 63) - 1]


def export_table(scratch):
    r = run_tlc("Export_Isa", workdir=scratch.dir, timeout=120)
    for line in r.prints:
        if line.startswith('<<"TABLE", '):
            return json.loads(json.loads(line[len('<<"TABLE", '):-2]))
    tlc_failed(r, "Export_Isa")


def device_table():
    r = run_jobs([{"k": "devices", "id": 0}])[0]
    return {d["name"]: d for d in r["devices"]}


# --- operands ---------------------------------------------------------------------------

def R(n):
    return {"k": "r", "n": n}


def E(v):
    if -(1 << 30) <= v <= (1 << 30):
        return {"k": "e", "v": v, "huge": 0}
    return {"k": "e", "v": 0, "huge": 1 if v > 0 else -1, "lit": str(v)}


def IX(reg, mode, q=0):
    o = {"k": "ix", "reg": reg, "mode": mode, "q": 0, "huge": 0}
    if mode == "disp":
        if -(1 << 30) <= q <= (1 << 30):
            o["q"] = q
        else:
            o["huge"] = 1 if q > 0 else -1
            o["lit"] = str(q)
    return o


def num_text(v):
    return str(v) if v >= 0 else "-%d" % -v


def op_text(o):
    if o["k"] == "r":
        return "r%d" % o["n"]
    if o["k"] == "e":
        return num_text(int(o["lit"])) if o.get("lit") else num_text(o["v"])
    reg = o["reg"]
    if o["mode"] == "none":
        return reg
    if o["mode"] == "inc":
        return reg + "+"
    if o["mode"] == "dec":
        return "-" + reg
    q = int(o["lit"]) if o.get("lit") else o["q"]
    return "%s+%s" % (reg, num_text(q) if q >= 0 else "(%s)" % num_text(q))


def strip(o):
    return {k: v for k, v in o.items() if k != "lit"}


IDX_FAMILY = [IX(r, m) for r in "XYZ" for m in ("none", "inc", "dec")]
IDX_LPM = [IX("Z", "none"), IX("Z", "inc")]


def boundary_values(lo, hi, rnd, nrand):
    s = {lo, hi, lo + 1, hi - 1, (lo + hi) // 2}
    b = 1
    while b <= hi:
        for x in (b - 1, b, b + 1, hi - b, hi - b + 1):
            if lo <= x <= hi:
                s.add(x)
        b *= 2
    # all-ones prefixes and alternating patterns
    for x in (0x5555, 0xAAAA, 0x155555, 0x2AAAAA, 0x00FF, 0xFF00, 0x0F0F, 0xF0F0, 0x3F0000, 0x3E0000, 0x10000, 0x1FFFF):
        if lo <= x <= hi:
            s.add(x)
    for _ in range(nrand):
        s.add(rnd.randint(lo, hi))
    return sorted(s)


class Gen:
    def __init__(self, table, devices, seed, tier):
        self.t, self.dev, self.tier = table, devices, tier
        self.rnd = random.Random(seed)
        self.cases = []

    def add(self, mn, ops, device="", addr=0, tag=""):
        self.cases.append({"mn": mn, "ops": ops, "device": device, "addr": addr, "tag": tag})

    def legal_values(self, cls, addr, full=True, core="classic"):
        t = self.t
        if cls in t["regclass"]:
            return [R(n) for n in t["regclass"][cls]]
        if cls in t["relclass"]:
            lo, hi = t["relclass"][cls]
            return [E(addr + 1 + d) for d in range(lo, hi + 1)]
        if cls in t["numclass"]:
            lo, hi = t["numclass"][cls]
            if hi - lo <= 400:
                return [E(v) for v in range(lo, hi + 1)]
            if cls == "A16":
                n = 40 if self.tier == "quick" else 1500
            else:
                n = 1500 if self.tier == "quick" else 60000
            return [E(v) for v in boundary_values(lo, hi, self.rnd, n)]
        if cls == "IxF":
            return IDX_FAMILY + [IX(r, "disp", q) for r in "YZ" for q in range(64)]
        if cls == "IxLpm":
            return IDX_LPM
        if cls == "IxZinc":
            return [IX("Z", "inc")]
        raise ToolError("unknown class " + cls)

    def representative(self, cls, addr):
        t = self.t
        if cls in t["regclass"]:
            return R(t["regclass"][cls][len(t["regclass"][cls]) // 2])
        if cls in t["relclass"]:
            return E(addr + 1 + 5)
        if cls in t["numclass"]:
            lo, hi = t["numclass"][cls]
            return E(min(hi, lo + 5))
        if cls == "IxF":
            return IX("Y", "disp", 5)
        if cls in ("IxLpm", "IxZinc"):
            return IX("Z", "inc")


REL_ADDR = 3000


def gen_c01(g):
    """Every legal operand tuple (two-word address spaces: boundary + seeded random)."""
    t = g.t
    for mn in t["mnemonics"]:
        for sig in t["sigs"][mn]["classic"]:
            addr = REL_ADDR if any(c in t["relclass"] for c in sig) else 0
            doms = [g.legal_values(c, addr) for c in sig]
            size = 1
            for d in doms:
                size *= len(d)
            if size <= 70000 or g.tier == "thorough":
                for ops in itertools.product(*doms):
                    g.add(mn, list(ops), addr=addr)
            else:
                # too large for the tier: every value of each position against a seeded sample of the others
                for i, d in enumerate(doms):
                    for v in d:
                        ops = [g.rnd.choice(x) for x in doms]
                        ops[i] = v
                        g.add(mn, ops, addr=addr)
    # reduced core: the full one-word lds/sts space, and relative/other forms unaffected by the core
    red = [n for n, d in g.dev.items() if "Avr8l" in d["flags"]]
    for devname in red:
        for mn in ("lds", "sts"):
            for sig in t["sigs"][mn]["reduced"]:
                doms = [g.legal_values(c, 0, core="reduced") for c in sig]
                for ops in itertools.product(*doms):
                    g.add(mn, list(ops), device=devname)
    # relative instructions at other addresses (address 0, and a high one), targets as numbers
    for mn in ("rjmp", "rcall", "breq", "brne", "brbs", "brbc"):
        sig = t["sigs"][mn]["classic"][0]
        for addr in (0, 1, 70, 2047, 2048, 5000):
            doms = []
            for c in sig:
                if c in t["relclass"]:
                    lo, hi = t["relclass"][c]
                    ds = {lo, lo + 1, -1, 0, 1, hi - 1, hi}
                    doms.append([E(addr + 1 + d) for d in sorted(ds) if addr + 1 + d >= 0])
                else:
                    doms.append([E(0), E(7), E(3)])
            for ops in itertools.product(*doms):
                g.add(mn, list(ops), addr=addr)


def confusions(cls, addr):
    """Operands of the wrong kind for a position of class cls."""
    out = []
    regish = cls in ("R", "Rh", "Rm", "Re", "Rw")
    if not regish:
        out += [R(0), R(17), R(24), R(31)]
    if cls not in ("IxF",):
        out += [IX("X", "none"), IX("Y", "inc"), IX("Z", "dec"), IX("Y", "disp", 2), IX("Z", "disp", 63)]
    if cls in ("IxLpm", "IxZinc"):
        out += [IX("Z", "dec"), IX("X", "none"), IX("Y", "none"), IX("X", "inc"), IX("Y", "inc"), IX("Z", "disp", 0), IX("Z", "disp", 1)]
    if cls == "IxZinc":
        out += [IX("Z", "none")]
    if cls == "IxF":
        out += [IX("X", "disp", 0), IX("X", "disp", 1), IX("X", "disp", 63)]
        out += [IX(r, "disp", q) for r in "YZ" for q in (-300, -129, -128, -65, -64, -2, -1, 64, 65, 127, 128, 191, 192, 255, 256, 257, 319, 320, 1000, 65536 + 3)]
        out += [IX("Y", "disp", h) for h in HUGE] + [IX("Z", "disp", -h) for h in HUGE]
    if regish or cls in ("IxF", "IxLpm", "IxZinc"):
        out += [E(0), E(1), E(16), E(24), E(31), E(-1), E(255)]
    return out


def gen_c04(g):
    t = g.t
    win = 300 if g.tier == "quick" else 5000
    for mn in t["mnemonics"]:
        for core, devname in (("classic", ""), ("reduced", sorted(n for n, d in g.dev.items() if "Avr8l" in d["flags"])[-1])):
            if core == "reduced" and mn not in ("lds", "sts"):
                continue
            sigs = t["sigs"][mn][core]
            for sig in sigs:
                addr = REL_ADDR if any(c in t["relclass"] for c in sig) else 0
                rep = [g.representative(c, addr) for c in sig]
                for i, cls in enumerate(sig):
                    cand = []
                    if cls in t["regclass"]:
                        cand = [R(n) for n in range(32)]
                    elif cls in t["numclass"] or cls in t["relclass"]:
                        if cls in t["relclass"]:
                            lo, hi = t["relclass"][cls]
                            lo, hi = lo + addr + 1, hi + addr + 1
                        else:
                            lo, hi = t["numclass"][cls]
                        vs = set(range(lo - win, min(lo + 40, hi) + 1)) | set(range(max(hi - 40, lo), hi + win + 1))
                        for p in (7, 8, 15, 16, 31, 32):
                            for e in (lo, hi):
                                vs |= {e - (1 << p), e + (1 << p), e - (1 << p) + 1, e + (1 << p) - 1}
                        vs |= {0, 1, -1}
                        cand = [E(v) for v in sorted(vs)]
                        cand += [E(h) for h in HUGE] + [E(-h) for h in HUGE]
                    cand += confusions(cls, addr)
                    for v in cand:
                        ops = list(rep)
                        ops[i] = v
                        g.add(mn, ops, device=devname, addr=addr)
                # all register pairs where there are two register positions
                regpos = [i for i, c in enumerate(sig) if c in t["regclass"]]
                if len(regpos) == 2:
                    for a in range(32):
                        for b in range(32):
                            ops = list(rep)
                            ops[regpos[0]], ops[regpos[1]] = R(a), R(b)
                            g.add(mn, ops, device=devname, addr=addr)
            # operand counts 0..3: drop and add operands
            base = [g.representative(c, 0) for c in (sigs[-1] if sigs else [])]
            extras = [R(1), E(1), IX("Z", "none")]
            for n in range(0, 4):
                if n <= len(base):
                    variants = [base[:n]] if n < len(base) else []
                    if n < len(base) and n > 0:
                        variants.append(base[len(base) - n:])
                else:
                    variants = [base + list(x) for x in itertools.product(extras, repeat=n - len(base))]
                for ops in variants:
                    g.add(mn, ops, device=devname, addr=REL_ADDR if any(c in t["relclass"] for c in (sigs[-1] if sigs else [])) else 0, tag="count")


def gen_c13(g):
    """Every device x every (mnemonic, addressing form) with representative legal operands."""
    t = g.t
    reps = 1 if g.tier == "quick" else 3
    forms = []
    for mn in t["mnemonics"]:
        for core in ("classic", "reduced"):
            for sig in t["sigs"][mn][core]:
                addr = 100 if any(c in t["relclass"] for c in sig) else 0
                doms = []
                for c in sig:
                    if c == "IxF":
                        doms.append([None])
                    else:
                        vals = g.legal_values(c, addr, core=core)
                        # the middle, both ends, and seeded values of the class
                        pick = [vals[len(vals) // 2], vals[0], vals[-1]] + [g.rnd.choice(vals) for _ in range(reps - 1)]
                        doms.append(pick)
                if "IxF" in sig:
                    ixs = IDX_FAMILY + [IX("Y", "disp", 0), IX("Y", "disp", 33), IX("Z", "disp", 0), IX("Z", "disp", 63)]
                    for ix in ixs:
                        for ops in itertools.product(*[[ix] if d == [None] else d for d in doms]):
                            forms.append((mn, core, list(ops), addr))
                else:
                    for k in range(reps + 2):
                        forms.append((mn, core, [d[min(k, len(d) - 1)] for d in doms], addr))
    for devname, d in sorted(g.dev.items()):
        core = "reduced" if "Avr8l" in d["flags"] else "classic"
        for mn, fcore, ops, addr in forms:
            if mn in ("lds", "sts") and fcore != core:
                continue
            if mn not in ("lds", "sts") and fcore == "reduced":
                continue
            # (Tiny1x cores lack LDD/STD: a displacement operand is that instruction, also when written with ld/st -- Devices!Unavailable)
            # reduced core: the displacement encodings (10q0 qq..) overlap the one-word lds/sts there; the
            # flag documentation ("no ADIW, SBIW, one word LDS/STS") does not say whether ldd/std exist -- not generated.
            if "Avr8l" in d["flags"] and (mn in ("ldd", "std") or any(o["k"] == "ix" and o["mode"] == "disp" for o in ops)):
                continue
            g.add(mn, ops, device=devname, addr=addr)
    # and with no device at all (the reference every device is compared with lives in the spec)
    for mn, fcore, ops, addr in forms:
        if fcore == "classic":
            g.add(mn, ops, device="", addr=addr)


def chr_ok(v):
    """Code points that can be written as a character constant without touching the line structure."""
    return 0x20 <= v <= 0x10ffff and not 0xd800 <= v <= 0xdfff and v not in (34, 39, 59, 92, 0x7f) and chr(v).isprintable()


def source_of(c):
    """The single-instruction program.  c['via'] writes the same operands another way: registers through .def aliases,
    values through .equ symbols, as character constants, or as a computed expression."""
    lines = []
    via = c.get("via", "")
    if c["device"]:
        lines.append(".device " + c["device"])
    texts = []
    for i, o in enumerate(c["ops"]):
        t = op_text(o)
        if via == "defdseg" and o["k"] == "r":
            lines += [".def Reg%c = r%d" % ("AB"[i % 2], 16 + (o["n"] + 5) % 16), ".dseg", ".undef reg%c" % "ab"[i % 2], ".def Reg%c = r%d" % ("AB"[i % 2], o["n"]), ".cseg"]
            t = "reg%c" % "ab"[i % 2]
        elif via == "def" and o["k"] == "r":
            lines.append(".def Reg%c = r%d" % ("AB"[i % 2], o["n"]))
            t = ("reg%c", "REG%c", "Reg%c", "rEg%c")[(o["n"] + i) % 4] % "ab"[i % 2]        # aliases are matched without regard to case
        elif via == "equ" and o["k"] == "e":
            lines.append(".equ Val%d = %s" % (i, t))
            t = "VAL%d" % i
        elif via == "equlate" and o["k"] == "e":
            t = "vAl%d" % i
        elif via in ("set", "setdseg", "seteseg") and o["k"] == "e":
            # a variable that had another (valid-looking) value first; the value in force is the one assigned last,
            # in whatever segment the assignment stands
            lines.append(".set Var%d = 1" % i)
            if via != "set":
                lines.append(".dseg" if via == "setdseg" else ".eseg")
            lines.append(".set var%d = %s" % (i, t))
            if via != "set":
                lines.append(".cseg")
            t = "VAR%d" % i
        elif via == "chr" and o["k"] == "e" and not o.get("lit") and chr_ok(o["v"]):
            t = "'%s'" % chr(o["v"])
        elif via == "expr" and o["k"] == "e" and not o.get("lit"):
            t = "(%s + 3) - 3" % t if o["v"] % 2 else "(%s) * 2 / 2" % t
        texts.append(t)
    if c["addr"]:
        lines.append(".org %d" % c["addr"])
    lines.append((c["mn"] + " " + ", ".join(texts)).strip())
    if via == "equlate":
        for i, o in enumerate(c["ops"]):
            if o["k"] == "e":
                lines.append(".equ val%d = %s" % (i, op_text(o)))
    return "\n".join(lines) + "\n"


def spelling_variants(cases):
    """The same (mnemonic, operands) written through aliases, symbols, character constants and expressions: the abstract
    instruction -- and so the specification's verdict -- is the same."""
    out = []
    for i, c in enumerate(cases):
        regs = [o for o in c["ops"] if o["k"] == "r"]
        es = [o for o in c["ops"] if o["k"] == "e" and not o.get("lit")]
        rel = c["addr"] != 0
        if regs and (i % 3 == 0 or any(o["n"] < 16 for o in regs) and i % 2 == 0):
            out.append(dict(c, via="def"))
        if regs and i % 11 == 5:
            out.append(dict(c, via="defdseg"))
        if es and not rel and i % 5 == 1:
            out.append(dict(c, via="equ"))
        if es and not rel and i % 7 == 2:
            out.append(dict(c, via="equlate"))
        if es and not rel and i % 9 == 3:
            out.append(dict(c, via=("set", "setdseg", "seteseg")[(i // 9) % 3]))
        if es and any(chr_ok(o["v"]) for o in es) and (i % 4 == 3 or any(o["v"] > 0x7e for o in es)):
            out.append(dict(c, via="chr"))
        if es and not rel and i % 6 == 4 and all(abs(o["v"]) < (1 << 29) for o in es):
            out.append(dict(c, via="expr"))
    return out


def to_event(c, res, devices):
    flags = devices[c["device"]]["flags"] if c["device"] else []
    ev = {"mn": c["mn"], "ops": [strip(o) for o in c["ops"]], "flags": flags, "addr": c["addr"],
          "res": res["r"], "w": []}
    if res["r"] == "ok":
        b = unhex(res["code"])
        pre, tail = b[:2 * c["addr"]], b[2 * c["addr"]:]
        if len(b) % 2 == 0 and len(pre) == 2 * c["addr"] and not any(pre):
            ev["w"] = words_le(tail)
        else:
            ev["w"] = [-1] + words_le(b)      # image does not have the shape .org promises
        if res["eeprom"]:
            ev["w"] = [-2]
    return ev


def to_prog_op(o):
    """Operand of an instruction-level case -> operand of an abstract program line (prog.py)."""
    import prog as P
    if o["k"] == "r":
        return P.R(o["n"])
    if o["k"] == "e":
        return P.E(P.lit(o["v"]))
    return P.IX(o["reg"], o["mode"], P.lit(o["q"]))


def device_sequences(g, devices):
    """C13 on whole programs: per device, all the forms it has in one program with a label after each and a table of
    the labels (same machine code and layout as the specification says, i.e. as with no device apart from lds/sts), and
    every form it lacks placed after forms of the same mnemonic that it has (must still be rejected)."""
    import prog as P
    import copy
    full = Gen(g.t, g.dev, 1, "quick")
    gen_c13(full)
    by_dev = {}
    for c in full.cases:
        by_dev.setdefault(c["device"], []).append(c)
    out = []
    for devname, cs in sorted(by_dev.items()):
        flags = devices[devname]["flags"] if devname else []
        core = "reduced" if "Avr8l" in flags else "classic"
        have, lack = [], []
        for c in cs:
            if any(cl in g.t["relclass"] for sg in g.t["sigs"][c["mn"]][core] for cl in sg):
                continue                      # relative operands are tied to their address
            (lack if c.get("unavailable") else have).append(c)
        head = [P.line("device", n=devname)] if devname else []
        # classification is the specification's business: both lists are only *orders* of lines; Trace_Asm decides
        lines, labels = [], []
        for i, c in enumerate(cs[::3]):
            if any(cl in g.t["relclass"] for sg in g.t["sigs"][c["mn"]][core] for cl in sg):
                continue
            lines.append(P.instr(c["mn"], *[to_prog_op(o) for o in c["ops"]]))
        # (a) one program per form: three forms of other mnemonics, the form, a label, the label's value
        for i, c in enumerate(cs):
            if any(cl in g.t["relclass"] for sg in g.t["sigs"][c["mn"]][core] for cl in sg):
                continue
            same = [x for x in cs if x["mn"] == c["mn"] and x is not c
                    and not any(cl in g.t["relclass"] for sg in g.t["sigs"][x["mn"]][core] for cl in sg)][:4]
            body = [P.instr(x["mn"], *[to_prog_op(o) for o in x["ops"]]) for x in same]
            body.append(P.instr(c["mn"], *[to_prog_op(o) for o in c["ops"]]))
            body += [P.label("after"), P.instr("rjmp", P.E(P.sym("after"))), P.data(2, P.E(P.sym("after")))]
            out.append((devname, head + body))
            if devname and i % 3 == 1:
                # the form is not in the last block of the program
                out.append((devname, head + copy.deepcopy(body) + [P.seg("data"), P.byte(1), P.seg("code"), P.instr("nop")]))
                out.append((devname, head + copy.deepcopy(body) + [P.org(0x100), P.instr("ret"), P.seg("eeprom"), P.byte(1)]))
            if devname and i % 4 == 0:
                # the device is selected by a macro body, the form stands before the (first) call of that macro
                mac = [P.line("macro", n="chip"), P.line("device", n=devname), P.line("endm")]
                out.append((devname, mac + copy.deepcopy(body) + [P.call("chip")]))
                out.append((devname, mac + [P.call("chip")] + copy.deepcopy(body)))
    return out


def twin_programs(devices):
    """The same instruction text twice in one program, meaning two different things: the value of a .set variable, the
    register behind a .def alias or the location counter has changed in between (whatever is remembered per line text or
    per operand text shows here); a line without effect (.csegsize, .pragma, #pragma) between the device and a form it lacks."""
    import prog as P
    out = []
    imm = [("ldi", [P.R(16)], 1), ("cpi", [P.R(17)], 1), ("subi", [P.R(18)], 1), ("andi", [P.R(19)], 1), ("ori", [P.R(20)], 1), ("sbci", [P.R(21)], 1),
           ("adiw", [P.R(24)], 1), ("sbiw", [P.R(26)], 1), ("in", [P.R(3)], 1), ("lds", [P.R(4)], 1), ("bld", [P.R(5)], 1), ("sbrc", [P.R(6)], 1),
           ("out", [P.R(7)], 0), ("sts", [P.R(8)], 0), ("sbi", [P.E(2)], 0), ("cbi", [P.E(3)], 1), ("jmp", [], 0), ("call", [], 0), ("rjmp", [], 0), ("brne", [], 0)]
    for mn, fixed, pos in imm:
        for a, b in ((1, 2), (7, 0), (5, 6)):
            def ops(e):
                return (fixed + [P.E(e)]) if pos else ([P.E(e)] + fixed)
            for nm in ("n", "Count", "VAL"):
                out.append(("", [P.setv(nm, a), P.instr(mn, *ops(P.sym(nm))), P.setv(nm, b), P.instr(mn, *ops(P.sym(nm))), P.label("after"), P.data(2, P.E(P.sym("after")))]))
                out.append(("", [P.setv(nm, a), P.instr(mn, *ops(P.sym(nm))), P.instr("nop"), P.setv(nm, P.binop("+", P.sym(nm), P.lit(b + 1))), P.instr(mn, *ops(P.sym(nm))),
                                 P.instr(mn, *ops(P.sym(nm)))]))
        if mn not in ("rjmp", "brne", "jmp", "call"):
            out.append(("", [P.instr(mn, *((fixed + [P.E(P.sym("pc"))]) if pos else ([P.E(P.sym("pc"))] + fixed))) for _ in range(3)]))
    # aliases bound anew between two equal lines: to a register the mnemonic takes (other code) and to one it does not take (refused)
    cls = [("movw", 16, 20, 17, [P.R(2)]), ("ldi", 16, 31, 15, [P.E(1)]), ("ser", 17, 30, 3, []), ("muls", 16, 18, 8, [P.R(17)]), ("fmul", 16, 23, 24, [P.R(17)]),
           ("mulsu", 17, 22, 25, [P.R(16)]), ("adiw", 24, 28, 25, [P.E(1)]), ("cpi", 20, 16, 0, [P.E(9)]), ("inc", 1, 31, 16, []), ("mov", 0, 31, 7, [P.R(1)])]
    for mn, r1, r2, bad, rest in cls:
        for nm in ("dst", "Tmp"):
            for rb in (r2, bad):
                use = P.instr(mn, P.E(P.sym(nm)), *rest)
                out.append(("", [P.defr(nm, r1), use, P.undef(nm), P.defr(nm, rb), use, P.instr("ret")]))
                out.append(("", [P.defr(nm, r1), use, P.defr(nm, rb), use, P.instr("ret")]))
                out.append(("", [P.defr(nm, r1), use, P.seg("data"), P.undef(nm), P.defr(nm, rb), P.seg("code"), use]))
    # lines without effect between the selection of a device and a form the device lacks / has
    # (.list/.nolist/.listmac/.overlap are refused by this assembler: not among the lines without effect)
    noops = [".csegsize 12", ".csegsize 10", ".pragma option use core v1", "#pragma partinc 0", ".pragma", ".csegsize 14", ".csegsize 16"]
    forms = [("break", []), ("spm", []), ("elpm", []), ("eijmp", []), ("eicall", []), ("mul", [P.R(1), P.R(2)]), ("movw", [P.R(2), P.R(4)]), ("jmp", [P.E(0)]), ("lpm", []),
             ("nop", []), ("des", [P.E(3)]), ("push", [P.R(1)]), ("lds", [P.R(16), P.E(0x60)]), ("lds", [P.R(3), P.E(0x60)])]
    for dn in sorted(devices):
        if not dn or (dn not in ("AT94K", "ATtiny20", "ATtiny10", "AT90S1200", "ATmega8", "ATmega48", "ATtiny13", "ATmega2560", "ATxmega128A1") and hash_name(dn) % 6):
            continue
        for k, (mn, ops) in enumerate(forms):
            t = noops[(k + hash_name(dn)) % len(noops)]
            use = P.instr(mn, *ops)
            out.append((dn, [P.line("device", n=dn), P.line("noop", text=t), use]))
            out.append((dn, [P.line("device", n=dn), P.instr("nop"), use, P.line("noop", text=t), use]))
            out.append((dn, [P.line("macro", n="cfg"), P.line("noop", text=t), P.line("endm"), P.line("device", n=dn), P.call("cfg"), use]))
    return out


def hash_name(n):
    return sum(ord(ch) * (i + 1) for i, ch in enumerate(n))


GENS = {"C01": gen_c01, "C04": gen_c04, "C13": gen_c13}


def _via_count(cases):
    out = {}
    for c in cases:
        if c.get("via"):
            out[c["via"]] = out.get(c["via"], 0) + 1
    return out


def canaries(events):
    """Binding self-test: copies of accepted-looking events with one recorded field
    corrupted; TLC must reject every one of them."""
    out = []
    oks = [e for e in events if e["res"] == "ok" and e["w"] and e["w"][0] >= 0]
    errs = [e for e in events if e["res"] == "err"]
    if oks:
        e = dict(oks[len(oks) // 2]); e["w"] = [e["w"][0] ^ 0x10] + e["w"][1:]; out.append(e)
        e = dict(oks[len(oks) // 3]); e["res"] = "err"; e["w"] = []; out.append(e)
        e = dict(oks[-1]); e["w"] = e["w"] + [0]; out.append(e)
    if errs:
        e = dict(errs[len(errs) // 2]); e["res"] = "ok"; e["w"] = [0]; out.append(e)
    return out


def check(prop, tier, seed):
    scratch = Scratch(prop)
    v = Verdict(prop, tier, seed, "model_checking")
    try:
        build_s = build_harness()
        table = export_table(scratch)
        devices = device_table()
        g = Gen(table, devices, seed, tier)
        GENS[prop](g)
        # de-duplicate
        seen, cases = set(), []
        for c in g.cases:
            k = json.dumps([c["mn"], c["ops"], c["device"], c["addr"]], sort_keys=True)
            if k not in seen:
                seen.add(k)
                cases.append(c)
        nplain = len(cases)
        if prop in ("C04", "C01"):
            cases += spelling_variants(cases)
        elif prop == "C13":
            # registers through .def aliases: the device's form of the instruction is chosen all the same
            cases += [v_ for v_ in spelling_variants(cases) if v_["via"] in ("def", "defdseg")]
        jobs = [{"k": "str", "id": i, "src": source_of(c)} for i, c in enumerate(cases)]
        res = run_jobs(jobs)
        events = [to_event(c, res[i], devices) for i, c in enumerate(cases)]
        can = canaries(events)
        rejected, stats = validate_events(events + can, "Trace_Isa", scratch)
        ncan = sum(1 for i in range(len(events), len(events) + len(can)) if i in rejected)
        if ncan != len(can):
            raise ToolError("binding self-test failed: %d of %d corrupted events were rejected" % (ncan, len(can)))

        def matcher(k, case):
            m = k.get("match", {})
            if "mn" in m and case["mn"] not in m["mn"]:
                return False
            if "observed" in m and case["observed"]["r"] not in m["observed"]:
                return False
            if "device_flag" in m and m["device_flag"] not in case.get("flags", []):
                return False
            if "tag" in m and case.get("tag") != m["tag"]:
                return False
            return True

        for i in sorted(rejected):
            if i >= len(events):
                continue
            c = cases[i]
            r = res[i]
            obs = {"r": r["r"]}
            if r["r"] == "ok":
                obs["words"] = ["%04x" % w for w in events[i]["w"] if w >= 0]
            else:
                obs["text"] = r.get("text", "")[:200]
            exp = rejected[i]
            v.reject({"source": source_of(c), "mn": c["mn"], "ops": [strip(o) for o in c["ops"]],
                      "device": c["device"], "flags": events[i]["flags"], "addr": c["addr"], "tag": c.get("tag", ""), "via": c.get("via", ""),
                      "observed": obs,
                      "expected": {"ok": exp["ok"], "words": ["%04x" % w for w in exp["w"]]}}, matcher)
        v.summary(lambda x: (x["mn"], x["device"], x["observed"]["r"], "expected " + ("ok" if x["expected"]["ok"] else "err")))
        seqcov = None
        if prop in ("C13", "C01", "C04"):
            # whole programs: forms of one mnemonic in sequence (each earlier form may be one the device has), then a label
            import prog as P
            seqs = device_sequences(g, devices) if prop != "C04" else []
            if prop == "C01":
                # every legal form in the company of other forms and followed by a label, with no device and on the reduced core
                seqs = [(dn, pr) for dn, pr in seqs if dn == "" or "Avr8l" in devices[dn]["flags"]]
            # equal lines that mean different things; lines without effect next to device-dependent forms
            seqs += [(dn, pr) for dn, pr in twin_programs(devices) if (dn != "") == (prop == "C13")]
            sjobs = [{"k": "str", "id": i, "src": P.render(pr)} for i, (dn, pr) in enumerate(seqs)]
            sres = run_jobs(sjobs)
            sevents = [P.event(pr, sres[i], P.devs_for(pr, devices), True, False, ()) for i, (dn, pr) in enumerate(seqs)]
            # a program whose earlier forms already fail tells nothing new: the specification decides what must happen anyway
            srej, sstats = validate_events(sevents, "Trace_Asm", scratch)
            for i in sorted(srej):
                dn, pr = seqs[i]
                v.reject({"source": sjobs[i]["src"], "mn": "sequence", "ops": [], "device": dn, "flags": devices[dn]["flags"] if dn else [], "addr": 0,
                          "tag": "sequence", "observed": {"r": sres[i]["r"], "text": sres[i].get("text", "")[:200], "words": [sres[i].get("code", "")[:80]]},
                          "expected": {"ok": bool(srej[i].get("ok")), "words": []}}, matcher)
            seqcov = {"programs": len(seqs), "rejected": len(srej), "states": sstats["states"],
                      "rule": "per device and form: up to four other forms of the same mnemonic, the form, a label, a jump to it and its value; twin lines: the same instruction text twice with a .set variable reassigned, a .def alias bound anew (to a register the mnemonic takes / does not take) or the location counter moved in between; lines without effect (.csegsize, .pragma, #pragma) between the device selection and forms the device has / lacks"}
            stats["states"] += sstats["states"]
            stats["transitions"] += sstats["transitions"]
        mc = None
        if prop == "C01" and tier == "thorough":
            mc = model_check("MC_Isa", scratch, workers=8, xmx="8g", coverage=False)
            mc["theorems"] = "RoundTrip: Decode(Encode(i)) = Canon(i); WordRange; LenOK -- over every legal form (two-word address spaces: boundary set)"
        nontrivial = len({(c["mn"], json.dumps(c["ops"], sort_keys=True), c["device"], c.get("via", "")) for c in cases})
        per_mn = {}
        for c in cases:
            per_mn[c["mn"]] = per_mn.get(c["mn"], 0) + 1
        v.coverage.update({
            "states": stats["states"], "transitions": stats["transitions"],
            "traces_validated_against_impl": len(events),
            "evaluations": len(events), "distinct_nontrivial": nontrivial,
            "rule": "one build_str per (mnemonic, operand tuple, device, address) enumerated from the tables exported by "
                    "AvrIsa.tla; a rotating share of them once more with the operands written through .def aliases (also rebound inside .dseg), .equ symbols (defined before / after), .set variables (also reassigned inside .dseg / .eseg), "
                    "character constants and computed expressions; distinct = distinct (mnemonic, operands, device, spelling); non-trivial = every case (each has at least a mnemonic)",
            "plain_cases": nplain, "spelling_variants": _via_count(cases),
            "mnemonics_covered": len(per_mn), "mnemonics_in_spec": len(table["mnemonics"]),
            "expected_ok": sum(1 for i, e in enumerate(events) if e["res"] == "ok" and i not in rejected),
            "expected_err": sum(1 for i, e in enumerate(events) if e["res"] == "err" and i not in rejected),
            "rejected_events": len([i for i in rejected if i < len(events)]),
            "binding_selftest": "%d/%d corrupted events rejected" % (ncan, len(can)),
            "tlc": stats, "harness_build_s": round(build_s, 1), "model_checking_of_spec": mc or "MC_Isa runs in the thorough tier",
            "device_sequences": seqcov,
            "exhaustive": prop == "C13" or (prop == "C01"),
            "exhaustive_note": "complete for all one-word forms; lds/sts 16-bit and jmp/call 22-bit address spaces are boundary + seeded random",
            "samples": [{"source": source_of(cases[i]), "event": events[i]} for i in
                        sorted(random.Random(seed).sample(range(len(cases)), min(6, len(cases))))],
        })
        v.assumptions += [
            "TLC, CommunityModules Json/IOUtils/Bitwise overrides",
            "AvrIsa.tla is a faithful transcription of the AVR Instruction Set Manual (audited against llvm-mc for the classic core; MC_Isa round-trip theorem)",
            "ld/ldd and st/std are one family (ld r,Z+q accepted); K8 immediates accept -128..255",
            "the recorder (harness drive + tools/isa.py to_event) reports words faithfully",
        ]
        return v.finish()
    finally:
        scratch.cleanup()
