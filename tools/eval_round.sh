#!/bin/sh
# eval_round.sh <round tag e.g. r3> <seed root prefix e.g. /tmp/seed3-> <props...>
R=$1; PRE=$2; shift 2
for p in "$@"; do
  for m in m1 m2 m3; do [ -d $PRE$p/$m ] || continue;
    d=$PRE$p/$m
    [ -f $d/patch.diff ] || continue
    s=/tmp/s$R/$p-$R$m; mkdir -p $s; cp $d/* $s/ 2>/dev/null
    [ -f $s/demo_$m.rs ] && rm -f $s/demo.rs
    out=$(timeout 1800 python3 /verif/tools/seed_eval.py $p $s 2>&1 | grep -E "^confirm|^check|PATCH")
    echo "$p-$R$m: $(echo "$out" | tr '\n' ' ' | cut -c1-200)"
  done
done
