import sys, json, subprocess, random
sys.path.insert(0,'tools')
from common import *
import isa
sc = Scratch("audit")
table = isa.export_table(sc)
g = isa.Gen(table, {}, 1, "quick")
isa.gen_c01(g)
rnd = random.Random(5)
cases = [c for c in g.cases if not any(cl in table["relclass"] for s in table["sigs"][c["mn"]]["classic"] for cl in s) and not c["device"]]
by = {}
for c in cases: by.setdefault(c["mn"], []).append(c)
pick = []
for mn, cs in by.items():
    rnd.shuffle(cs); pick += cs[:400]
def txt(c):
    mn = c["mn"]; ops = c["ops"]
    def o(x):
        if x["k"]=="e":
            v = x["v"]
            if mn in ("jmp","call"): v *= 2
            return str(v)
        return isa.op_text(x)
    return mn + " " + ", ".join(o(x) for x in ops)
src = "\n".join(txt(c) for c in pick) + "\n"
open(sc.path("a.s"),"w").write(src)
p = subprocess.run(["llvm-mc-14","--triple=avr","-mattr=+avr6,+eijmpcall,+break,+des,+spm,+spmx,+lpmx,+elpm,+elpmx,+mul,+movw,+jmpcall,+ijmpcall,+sram,+addsubiw","--show-encoding",sc.path("a.s")],capture_output=True,text=True)
lines = [l for l in p.stdout.splitlines() if "encoding:" in l]
import re
bad = {int(m.group(1)) for m in re.finditer(r"a\.s:(\d+):\d+: error", p.stderr)}
print(len(pick), len(lines), len(bad))
from collections import Counter
print(Counter(pick[i-1]["mn"] for i in bad))
pick = [c for i, c in enumerate(pick) if (i+1) not in bad]
assert len(pick) == len(lines)
events = []
for c, l in zip(pick, lines):
    enc = l.split("encoding: [")[1].split("]")[0].split(",")
    b = [int(x,16) for x in enc]
    events.append({"mn": c["mn"], "ops":[isa.strip(o) for o in c["ops"]], "flags": [], "addr":0, "res":"ok", "w": words_le(b)})
rej, st = validate_events(events, "Trace_Isa", sc)
print("rejected", len(rej), st)
for i in list(rej)[:20]: print(txt(pick[i]), events[i]["w"], rej[i])
sc.cleanup()
