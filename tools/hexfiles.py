"""C07: the Intel HEX writers.  Images with specification-defined contents (IHex!Img) are written
by write_code_hex / write_eeprom_hex; the files are lexed (hex digits to integers, nothing else)
and TLC replays the records through the reader of IHex.tla (Trace_IHex)."""
import copy
import os
import random

from common import *


def lex(path):
    """File -> records as the specification sees them.  Blank lines are skipped (every reader does)."""
    recs = []
    with open(path, "rb") as f:
        data = f.read()
    for raw in data.split(b"\n"):
        ln = raw.rstrip(b"\r")
        if ln.strip() == b"":
            continue
        try:
            s = ln.decode("ascii")
            if not s.startswith(":") or len(s) % 2 == 0 or len(s) < 11:
                raise ValueError
            b = bytes.fromhex(s[1:])
            recs.append({"len": b[0], "addr": b[1] * 256 + b[2], "type": b[3], "data": list(b[4:-1]), "sum": b[-1]})
        except ValueError:
            recs.append({"bad": True})
    return recs


def lengths(tier):
    ls = set(range(0, 601))
    ks = (1, 2) if tier == "quick" else (1, 2, 3, 4, 5, 6, 7, 8)
    for k in ks:
        for d in (range(-17, 18) if k == 1 or (tier == "thorough" and k == 2) else (-17, -16, -15, -1, 0, 1, 15, 16, 17)):
            ls.add(65536 * k + d)
    ls |= {1048576 + 17}          # the first block beyond what segment addresses reach
    if tier == "thorough":
        ls |= {1048576 - 1, 1048576, 1048576 + 1, 1048576 + 65536 - 1, 1048576 + 65536 + 3}
    return sorted(ls)


def check(prop, tier, seed):
    build_harness()
    scratch = Scratch(prop)
    v = Verdict(prop, tier, seed, "model_checking")
    try:
        mc = model_check("MC_IHex", scratch, workers=4, coverage=False)
        jobs, meta = [], []
        d = scratch.sub("hex")
        for which in ("code", "eeprom"):
            for n in lengths(tier):
                i = len(jobs)
                jobs.append({"k": "hex", "id": i, "which": which, "n": n, "seed": (seed + n) % 7, "path": os.path.join(d, "f%d.hex" % i),
                             "prefill": 0 if n % 5 else (n // 16 + 40)})       # every fifth file replaces a longer, older file
                if n % 3 == 1 and n <= 70000:
                    # the image is rewritten in place and written once more: nothing of the first writing may be reused
                    jobs[-1]["again_seed"] = (seed + n + 3) % 7
                meta.append((which, n, (seed + n) % 7))
            # contents with long runs: erased memory (all FF), all zero, the pattern with erased 16-byte rows
            for sd in (7, 8, 9):
                for n in list(range(0, 100)) + [255, 256, 257, 600, 4096, 65535, 65536, 65537, 65536 + 48]:
                    i = len(jobs)
                    jobs.append({"k": "hex", "id": i, "which": which, "n": n, "seed": sd, "path": os.path.join(d, "f%d.hex" % i)})
                    meta.append((which, n, sd))
        res = run_jobs(jobs, watchdog=120)
        events = []
        for i, (which, n, sd) in enumerate(meta):
            r = res[i]
            recs = lex(r["path"]) if r["r"] == "ok" else []
            events.append({"which": which, "n": n, "seed": sd, "res": r["r"], "recs": recs})
            if r["r"] == "ok":
                os.remove(r["path"])
            if "again" in r:
                r2 = r["again"]
                events.append({"which": which, "n": n, "seed": jobs[i]["again_seed"], "res": r2["r"], "recs": lex(r2["path"]) if r2["r"] == "ok" else []})
                if r2["r"] == "ok":
                    os.remove(r2["path"])
        # binding self-test: flip one data byte / one address / drop a record / append a second EOF
        good = next(e for e in events if e["res"] == "ok" and e["n"] == 100 and e["seed"] < 7)
        can = []
        c = copy.deepcopy(good); c["recs"][2]["data"][3] ^= 1; c["recs"][2]["sum"] = (c["recs"][2]["sum"] - 1) % 256; can.append(c)
        c = copy.deepcopy(good); c["recs"][2]["sum"] ^= 1; can.append(c)
        c = copy.deepcopy(good); del c["recs"][3]; can.append(c)
        c = copy.deepcopy(good); c["recs"].append(c["recs"][-1]); can.append(c)
        c = copy.deepcopy(good); c["n"] += 1; can.append(c)
        # spread the large files evenly over the TLC processes
        nch = 12
        by_size = sorted(events, key=lambda e: -len(e["recs"]))
        buckets = [[] for _ in range(nch)]
        for j, e in enumerate(by_size):
            buckets[j % nch if (j // nch) % 2 == 0 else nch - 1 - j % nch].append(e)
        size = max(len(b) for b in buckets)
        order = []
        for b in buckets:
            order += b
        # validate_events cuts consecutive chunks of equal length: pad the order so that buckets stay together
        chunk = size
        order = []
        for b in buckets:
            order += b + [by_size[-1]] * (size - len(b))
        rejected, stats = validate_events(order + can, "Trace_IHex", scratch, chunk=chunk)
        ncan = sum(1 for i in range(len(order), len(order) + len(can)) if i in rejected)
        if ncan != len(can):
            raise ToolError("binding self-test failed: %d of %d corrupted files were rejected" % (ncan, len(can)))

        def matcher(k, case):
            return False
        for i in sorted(rejected):
            if i >= len(order):
                continue
            e = order[i]
            v.reject({"which": e["which"], "n": e["n"], "seed": e["seed"], "observed": e["res"],
                      "first_records": e["recs"][:4], "records": len(e["recs"]), "expected": rejected[i]}, matcher)
        v.summary(lambda x: (x["which"], "n<=65536" if x["n"] <= 65536 else "n>65536", x["observed"]))
        nrec = sum(len(e["recs"]) for e in events)
        v.coverage.update({
            "states": stats["states"] + mc["states"], "transitions": stats["transitions"] + mc["transitions"],
            "traces_validated_against_impl": len(events), "records_replayed": nrec,
            "evaluations": len(events), "distinct_nontrivial": len({(e["which"], e["n"], e["seed"]) for e in events if e["n"] > 0}),
            "rule": "every image length 0..600 and every length within 17 bytes of each 64 KiB boundary up to %d KiB, contents IHex!Img(seed, i) "
                    "(seven all-values patterns; erased memory, all zero and erased rows for lengths 0..99 and boundaries), every fifth file written over "
                    "a longer older file, every third image rewritten in place and written a second time, for both writers; distinct = distinct (writer, length, contents)" % (128 if tier == "quick" else 512),
            "largest_image": max(e["n"] for e in events),
            "model_checking_of_spec": dict(mc, theorems="RoundTrip: the reference writer's output reproduces the image for all lengths 0..70, record lengths 2..5, "
                                                        "block sizes 16/32; Rejects: six typical writer defects are rejected"),
            "rejected_events": len([i for i in rejected if i < len(order)]),
            "binding_selftest": "%d/%d corrupted files rejected" % (ncan, len(can)),
            "tlc": stats, "exhaustive": False,
            "samples": [{"which": e["which"], "n": e["n"], "records": e["recs"][:3]} for e in (events[5], events[300])],
        })
        v.assumptions += ["blank lines in the file are ignored (as every reader does)", "the lexer (tools/hexfiles.py lex) only converts hex digits",
                          "TLC, Json/IOUtils overrides"]
        return v.finish()
    finally:
        scratch.cleanup()
