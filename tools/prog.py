"""Abstract programs (the specification's input alphabet), their mechanical rendering to
source text, and the digestion of build results into trace events.  Nothing here decides
whether a result is right."""
import json
import re

from common import unhex

# ----------------------------------------------------------------------------------------
# constructors of abstract syntax (mirrors Expr.tla / Assembler.tla)


def num(v):
    assert v >= 0
    if v < (1 << 31):
        return {"t": "num", "v": v}
    assert v < (1 << 63)
    return {"t": "big", "b": list(v.to_bytes(8, "little"))}


def lit(v):
    """A literal of any sign: negative ones are written with unary minus."""
    return num(v) if v >= 0 else un("-", num(-v))


def chrlit(cp):
    """A literal written as a character constant (renderer flag; the value is the code point)."""
    d = num(cp)
    d["chr"] = 1
    return d


def sym(n):
    return {"t": "sym", "n": n.lower()}


def binop(op, l, r):
    return {"t": "bin", "op": op, "l": l, "r": r}


def un(op, e):
    return {"t": "un", "op": op, "e": e}


def fn(f, e):
    return {"t": "fn", "f": f, "e": e}


def par(e):
    return {"t": "par", "e": e}


def arg(i):
    return {"t": "arg", "i": i}


def R(n):
    return {"k": "r", "n": n}


def E(e):
    return {"k": "e", "e": e if isinstance(e, dict) else lit(e)}


def IX(reg, mode, q=None):
    return {"k": "ix", "reg": reg, "mode": mode, "q": q if isinstance(q, dict) else lit(q or 0)}


def ARG(i):
    return {"k": "arg", "i": i}


def S(text):
    return {"k": "s", "b": list(text.encode("utf-8")), "text": text}


def line(k, lab="", **kw):
    d = {"k": k, "ln": 0, "lab": lab.lower()}
    d.update(kw)
    return d


def instr(mn, *ops, lab=""):
    return line("instr", lab, mn=mn, ops=list(ops))


def data(w, *elems, lab=""):
    return line("data", lab, w=w, elems=list(elems))


def byte(e, lab=""):
    return line("byte", lab, e=e if isinstance(e, dict) else lit(e))


def org(e):
    return line("org", e=e if isinstance(e, dict) else lit(e))


def seg(s):
    return line("seg", s=s)


def label(n):
    return line("blank", n)


def equ(n, e):
    return line("equ", n=n.lower(), e=e if isinstance(e, dict) else lit(e))


def setv(n, e):
    return line("set", n=n.lower(), e=e if isinstance(e, dict) else lit(e))


def defr(n, r):
    return line("def", n=n.lower(), r=r)


def undef(n):
    return line("undef", n=n.lower())


def call(n, *args, lab=""):
    return line("call", lab, n=n.lower(), args=list(args))


# ----------------------------------------------------------------------------------------
# precedence (must agree with Expr.tla; Trace_* specs check the rendered tokens against Expr!Render)

PREC = {"*": 13, "/": 13, "%": 13, "+": 12, "-": 12, "<<": 11, ">>": 11, "<": 10, "<=": 10, ">": 10, ">=": 10,
        "==": 9, "!=": 9, "&": 8, "^": 7, "|": 6, "&&": 5, "||": 4}


def level(a):
    return PREC[a["op"]] if a["t"] == "bin" else 14 if a["t"] == "un" else 15


def tokens(a):
    """Token list with exactly the parentheses the operator table requires (Expr!Render)."""
    t = a["t"]
    if t == "num":
        return [dict({"k": "num", "s": "", "v": a["v"]}, **({"chr": 1} if a.get("chr") else {}))]
    if t == "big":
        return [{"k": "big", "s": "", "b": a["b"]}]
    if t == "sym":
        return [{"k": "sym", "s": a["n"]}]
    if t == "arg":
        return [{"k": "arg", "s": "", "i": a["i"]}]
    lp, rp = {"k": "lp", "s": "("}, {"k": "rp", "s": ")"}

    def wrap(x, need):
        return [lp] + tokens(x) + [rp] if need else tokens(x)
    if t == "par":
        return [lp] + tokens(a["e"]) + [rp]
    if t == "fn":
        return [{"k": "fn", "s": a["f"]}, lp] + tokens(a["e"]) + [rp]
    if t == "un":
        return [{"k": "op", "s": a["op"]}] + wrap(a["e"], level(a["e"]) < 14)
    p = PREC[a["op"]]
    return wrap(a["l"], level(a["l"]) < p) + [{"k": "op", "s": a["op"]}] + wrap(a["r"], level(a["r"]) <= p)


# ----------------------------------------------------------------------------------------
# spelling: everything the language defines as meaningless

class Spell:
    """case: lower|upper|mixed ; ws: 0..3 ; comment: ''|';'|'//'|'/*' ; radix: dec|0x|$|0b|oct|chr ;
    blank_before: 0..2 ; eol: '\n'|'\r\n'.  A deterministic per-occurrence counter varies 'mixed'."""

    def __init__(self, case="lower", ws=0, comment="", radix="dec", blank_before=0, eol="\n", paren=None):
        self.case, self.ws, self.comment, self.radix, self.blank_before, self.eol = case, ws, comment, radix, blank_before, eol
        # blanks inside parentheses: 0 none, 1 "( x )", 2 "(\tx )" and a blank between a function name and its parenthesis
        self.paren = ws % 3 if paren is None else paren
        self.n = 0

    def word(self, w):
        self.n += 1
        if self.case == "lower":
            return w.lower()
        if self.case == "upper":
            return w.upper()
        return "".join(c.upper() if (i + self.n) % 2 == 0 else c.lower() for i, c in enumerate(w))

    def number(self, v):
        r = self.radix
        if r == "0x":
            return "0x%x" % v if self.case != "upper" else "0x%X" % v
        if r == "$":
            return "$%x" % v if self.case != "upper" else "$%X" % v
        if r == "0b":
            return "0b" + bin(v)[2:]
        if r == "oct":
            return "0" + oct(v)[2:]
        if r == "chr" and 33 <= v <= 126 and v not in (39, 34, 59, 92):
            return "'%s'" % chr(v)
        return str(v)

    def sep(self, tight=""):
        """whitespace around an operator / after a comma"""
        return [tight, " ", "\t", "  "][self.ws]

    def gap(self):
        """mandatory whitespace (mnemonic / operands)"""
        return [" ", "\t", "  ", " \t "][self.ws]


DEFAULT = Spell()

# what a comment may contain: anything
COMMENT_TEXTS = ["note", "2*3 = 6", "** star **", "a, b; c", "say \"hi\" to 'c'", "// slashes", "/* opener", ".if 0", ".endif", "r16 = tmp + @0",
                 "label: nop", "trailing \\", "(unbalanced", "tab\there", "über µC", ".macro x", ".endm", "*", "x */* y", ";;;",
                 "parameters: @0 = port, @1 = value (@2 .. @9 may come later)", "-" * 70, "=" * 140, "((( " * 30, "!~" * 40, "*" * 90, "+-" * 80 + " banner"]


def expr_text(a, sp):
    out = []
    toks = tokens(a)
    for i, t in enumerate(toks):
        k = t["k"]
        if k == "num":
            out.append("'%s'" % chr(t["v"]) if t.get("chr") else sp.number(t["v"]))
        elif k == "big":
            out.append(sp.number(int.from_bytes(bytes(t["b"]), "little")))
        elif k == "sym":
            out.append(sp.word(t["s"]))
        elif k == "arg":
            out.append("@%d" % t["i"])
        elif k == "fn":
            out.append(sp.word(t["s"]))
        elif k == "op":
            unary = i == 0 or toks[i - 1]["k"] in ("op", "lp", "fn")
            if unary:
                out.append(t["s"] + ["", " ", "", "\t"][sp.ws])        # a blank may follow a prefix operator
            else:
                s = sp.sep()
                out.append(s + t["s"] + s)
        elif k == "lp":
            before = " " if sp.paren == 2 and i > 0 and toks[i - 1]["k"] == "fn" else ""
            out.append(before + "(" + ["", " ", "\t"][sp.paren])
        elif k == "rp":
            out.append(["", " ", " "][sp.paren] + ")")
        else:
            out.append(t["s"])
    return "".join(out)


def op_text(o, sp):
    k = o["k"]
    if k == "r":
        return sp.word("r%d" % o["n"])
    if k == "e":
        return expr_text(o["e"], sp)
    if k == "arg":
        return "@%d" % o["i"]
    if k == "s":
        return '"%s"' % o["text"]
    reg = sp.word(o["reg"])
    gap = ["", " ", "", "\t"][sp.ws]                                   # blanks around the + / after the - of an index operand
    if o["mode"] == "none":
        return reg
    if o["mode"] == "inc":
        return reg + gap + "+"
    if o["mode"] == "dec":
        return "-" + gap + reg
    return reg + gap + "+" + gap + expr_text(o["q"], sp)


SEGDIR = {"code": ".cseg", "data": ".dseg", "eeprom": ".eseg"}
DATADIR = {1: ".db", 2: ".dw", 4: ".dd", 8: ".dq"}


def line_text(l, sp):
    k = l["k"]
    comma = "," + ["", " ", "\t", ""][0 if sp.ws == 3 else 1 if sp.ws in (0, 1) else 2]
    pre = (sp.word(l["lab"]) + ":" + " ") if l.get("lab") else ""
    g = sp.gap()
    if k == "blank":
        body = ""
        pre = pre.rstrip()
    elif k == "instr":
        body = sp.word(l["mn"]) + ((g + comma.join(op_text(o, sp) for o in l["ops"])) if l["ops"] else "")
    elif k == "call":
        body = sp.word(l.get("spn", l["n"])) + ((g + comma.join(op_text(o, sp) for o in l["args"])) if l["args"] else "")
    elif k == "data":
        body = DATADIR[l["w"]] + ((g + comma.join(op_text(o, sp) for o in l["elems"])) if l["elems"] else "")
    elif k == "byte":
        body = ".byte" + g + expr_text(l["e"], sp)
    elif k == "org":
        body = ".org" + g + expr_text(l["e"], sp)
    elif k == "seg":
        body = SEGDIR[l["s"]]
    elif k in ("equ", "set"):
        body = "." + k + g + sp.word(l["n"]) + sp.sep(" ") + "=" + sp.sep(" ") + expr_text(l["e"], sp)
    elif k == "def":
        body = ".def" + g + sp.word(l["n"]) + sp.sep(" ") + "=" + sp.sep(" ") + sp.word("r%d" % l["r"])
    elif k == "undef":
        body = ".undef" + g + sp.word(l["n"])
    elif k == "define":
        body = l.get("form", ".define") + g + l["n"]
    elif k in ("if", "elif"):
        body = l.get("pfx", ".") + k + g + expr_text(l["e"], sp)
    elif k in ("ifdef", "ifndef"):
        body = l.get("pfx", ".") + k + g + l["n"]
    elif k in ("else", "endif", "exit"):
        body = (l.get("pfx", ".") if k != "exit" else ".") + k
    elif k == "macro":
        body = ".macro" + g + l.get("spn", l["n"])
    elif k == "endm":
        body = l.get("form", ".endm")
    elif k == "device":
        body = ".device" + g + l["n"]
    elif k in ("message", "warning", "error"):
        body = "." + k + g + '"%s"' % l["txt"]
    elif k == "include":
        body = ".include" + g + '"%s"' % l["p"]
    elif k == "includepath":
        body = ".includepath" + g + '"%s"' % l["p"]
    elif k in ("garbage", "noop"):
        body = l["text"]
    else:
        raise ValueError("cannot render " + k)
    s = pre + body
    if l.get("cmt"):
        # a comment written for this line in particular (renderer-only)
        return s + (" " if s else "") + "; " + l["cmt"]
    if sp.comment:
        sp.n += 1
        # every line meets every text over the descriptors of a case
        text = COMMENT_TEXTS[(sp.n + l["ln"] + 5 * sp.ws + 11 * sp.blank_before + 3 * len(sp.radix) + (7 if sp.case == "upper" else 0) + (13 if sp.eol != "\n" else 0))
                             % len(COMMENT_TEXTS)]
        glue = "" if (sp.ws + sp.blank_before + len(sp.radix)) % 2 == 0 and s else " "    # half of the descriptors: no blank before the comment
        if sp.comment == ";":
            s += glue + "; " + text
        elif sp.comment == "//":
            s += glue + "// " + text
        elif sp.comment == "/*":
            s += glue + "/* " + text.replace("*/", "* /") + " */"
        # blanks at the end of the line, behind the comment
        s += ["", " ", "", "\t "][(sp.ws + sp.blank_before) % 4]
    return s


def render(prog, spell=None, spells=None):
    """Assigns physical line numbers (ln) and returns the source text.  spells: optional list
    of per-line Spell objects."""
    out = []
    ln = 0
    eol = "\n"
    for i, l in enumerate(prog):
        sp = spells[i] if spells else (spell or DEFAULT)
        eol = sp.eol
        for b in range(sp.blank_before):
            ln += 1
            out.append(("" if b % 2 == 0 else "; filler") + eol)
        ln += 1
        l["ln"] = ln
        out.append(line_text(l, sp) + eol)
    return "".join(out)


def renumber(prog, start=1):
    for i, l in enumerate(prog):
        l["ln"] = start + i


# ----------------------------------------------------------------------------------------
# events

KEEP = {"k", "ln", "lab", "mn", "ops", "w", "elems", "e", "s", "n", "r", "args", "txt", "p"}


def clean(x):
    """The abstract line as the specification sees it (renderer-only fields dropped)."""
    if isinstance(x, dict):
        return {k: clean(v) for k, v in x.items() if k not in ("text", "spn", "form", "sp", "pfx", "chr", "ins", "cmt")}
    if isinstance(x, list):
        return [clean(v) for v in x]
    return x


INT = re.compile(r"(?<![\w.])\d+(?![\w.])")


def ints_of(text):
    return sorted({int(x) for x in INT.findall(text) if len(x) < 10})


def digest(res, mat=True, msg_texts=()):
    """Build result (from the driver) -> the `res` record of a Trace_Asm event."""
    r = {"r": res["r"], "code": [], "eeprom": [], "codelen": 0, "eeplen": 0, "sizes": [], "ramfill": 0,
         "msgs": [], "errints": []}
    if res["r"] == "ok":
        code, eep = unhex(res["code"]), unhex(res["eeprom"])
        r["codelen"], r["eeplen"] = len(code), len(eep)
        if "code_len" in res:
            r["codelen"], r["eeplen"] = res["code_len"], res["eeprom_len"]
        if mat:
            r["code"], r["eeprom"] = code, eep
        r["sizes"] = [res["fs"], res["es"], res["rs"]]
        r["ramfill"] = res["rf"]
        for m in res["msgs"]:
            txt = next((t for t in msg_texts if t in m), "?")
            r["msgs"].append({"txt": txt, "ints": ints_of(m.replace(txt, " "))})
    elif res["r"] == "err":
        r["errints"] = ints_of(res.get("text", ""))
    return r


def event(prog, res, devs=None, mat=True, chkline=False, msg_texts=()):
    return {"prog": clean(prog), "devs": devs or {}, "mat": mat, "chkline": chkline,
            "res": digest(res, mat, msg_texts)}


def devs_for(prog, devices):
    """Rows of the device table for the device names the program mentions."""
    out = {}
    for l in prog:
        if l["k"] == "device" and l["n"] in devices:
            d = devices[l["n"]]
            out[l["n"]] = {"flash": d["flash"], "ramstart": d["ramstart"], "ramsize": d["ramsize"],
                           "eeprom": d["eeprom"], "flags": d["flags"]}
    return out
