"""C11: include trees.  A flat program is cut into a tree of files spread over the places the
property names; build_file(tree) and build_str(flat) are both judged by TLC (Trace_Files) against
Files!RunTree / Assembler!Run, and TLC checks the paste theorem on every recorded tree."""
import copy
import os
import random

from common import *
from prog import *
import isa as isamod
import asm as asmmod

VR = "/R"          # virtual root used in the abstract model; mapped to the case's scratch directory


def base_programs():
    P = []
    P.append([equ("k1", 5), instr("ldi", R(16), E(sym("k1"))), instr("nop", lab="main"), data(2, E(sym("main")), E(sym("later"))),
              equ("later", 9), instr("rjmp", E(sym("main"))), line("message", txt="note one"), instr("ret")])
    P.append([line("device", n="ATmega48"), seg("data"), byte(2, lab="buf"), seg("code"), instr("lds", R(16), E(sym("buf"))),
              line("macro", n="mm"), instr("ldi", ARG(0), E(binop("+", arg(1), lit(1)))), line("endm"),
              call("mm", R(17), E(3)), call("mm", R(18), E(sym("kk"))), equ("kk", 7), instr("sei")])
    P.append([line("define", n="FLAG"), line("ifdef", n="FLAG"), instr("ldi", R(16), E(1)), line("else"), instr("ldi", R(16), E(2)), line("endif"),
              setv("cnt", 1), data(1, E(sym("cnt")), E(2)), setv("cnt", binop("+", sym("cnt"), lit(1))), data(1, E(sym("cnt")), E(4)),
              seg("eeprom"), data(1, E(0x55), lab="ee"), seg("code"), instr("ldi", R(20), E(sym("ee")))])
    P.append([defr("tmp", 19), instr("mov", E(sym("tmp")), R(0)), instr("inc", E(sym("tmp"))), undef("tmp"), instr("nop", lab="l1"),
              line("if", e=binop(">", sym("k2"), lit(3))), instr("brne", E(sym("l1"))), line("endif"), equ("k3", 2), instr("subi", R(17), E(sym("k3")))])
    P[3].insert(0, equ("k2", 4))
    # programs with one line at fault: wherever the cut puts that line, the build fails as the pasted text does
    P.append([instr("nop"), equ("k5", 1), line("device", n="ATnothing"), instr("ldi", R(16), E(sym("k5"))), data(1, E(1), E(2)), instr("ret")])
    P.append([line("device", n="ATtiny13"), instr("nop"), setv("v5", 2), line("device", n="ATmega48"), data(2, E(sym("v5"))), instr("ret")])
    P.append([instr("nop", lab="top"), instr("ldi", R(16), E(sym("nowhere5"))), line("message", txt="seen"), instr("rjmp", E(sym("top")))])
    P.append([line("device", n="ATtiny13"), instr("nop"), instr("jmp", E(0)), instr("ret"), data(1, E(7))])
    return P


def safe_cuts(lines):
    """Positions (0..n) at nesting depth 0 (outside conditionals and macro definitions)."""
    out, depth = [0], 0
    for i, l in enumerate(lines):
        if l["k"] in ("if", "ifdef", "ifndef", "macro"):
            depth += 1
        if l["k"] in ("endif", "endm"):
            depth -= 1
        if depth == 0:
            out.append(i + 1)
    return out


PLACES = ["samedir", "subdir", "caller", "ipath-main", "ipath-abs", "ipath-nested", "cwd", "ipath-dot", "samebase"]


class Tree:
    def __init__(self, rnd):
        self.rnd = rnd
        self.files = {}          # virtual path -> lines
        self.n = 0
        self.need_main_ipath = False
        self.need_abs_ipath = False
        self.need_nested = False
        self.need_dot = False
        self.places = []

    def build(self, lines, path, depth, nfiles, allow):
        """Cuts child files out of `lines` (recursively); returns the lines of this file."""
        rnd = self.rnd
        d = os.path.dirname(path)
        out = []
        cuts = safe_cuts(lines)
        ranges = []
        if depth > 0 and len(cuts) > 2 and nfiles[0] > 0:
            for _ in range(rnd.randrange(1, 3)):
                a, b = sorted(rnd.sample(cuts, 2))
                if all(b <= x or a >= y for x, y in ranges) and b > a and nfiles[0] > 0:
                    ranges.append((a, b))
                    nfiles[0] -= 1
        ranges.sort()
        i = 0
        for a, b in ranges:
            out += lines[i:a]
            self.n += 1
            name = rnd.choice(["f%d.inc", "F%d.INC", "Part%d.Inc", "f%d.inc"]) % self.n        # file names are kept as written
            place = rnd.choice(allow)
            self.places.append(place)
            inc = line("include", p=name, abs=False)
            if place == "samedir":
                cpath = d + "/" + name
            elif place == "subdir":
                inc["p"] = "%s%d/%s" % (rnd.choice(["sub", "Sub", "SUB"]), self.n, name)
                cpath = d + "/" + inc["p"]
            elif place == "caller":
                cpath = VR + "/ext/" + name
            elif place == "ipath-main":
                self.need_main_ipath = True
                cpath = VR + "/proj/ipm/" + name
            elif place == "ipath-abs":
                self.need_abs_ipath = True
                cpath = VR + "/ipa/" + name
            elif place == "ipath-nested":
                self.need_nested = True
                cpath = VR + "/proj/ipn/" + name
            elif place == "ipath-dot":
                # a helper in another directory names its own directory with .includepath "."
                self.need_dot = True
                cpath = VR + "/proj/lib/" + name
            elif place == "samebase":
                # a different file with the includer's own base name, in a sub-directory written in the path
                inc["p"] = "same%d/%s" % (self.n, os.path.basename(path))
                cpath = d + "/" + inc["p"]
            else:
                inc["p"] = "cw/" + name
                cpath = VR + "/work/cw/" + name
            body = self.build(lines[a:b], cpath, depth - 1, nfiles, allow)
            if rnd.random() < 0.3:
                body = body + [line("exit"), line("garbage", text="never ( assembled"), instr("break")]
            self.files[cpath] = body
            out.append(inc)
            i = b
        out += lines[i:]
        return out


def make_case(rnd, flat, allow, missing=False):
    t = Tree(rnd)
    nfiles = [rnd.randrange(1, 4)]
    main = VR + "/proj/main.asm"
    body = t.build(copy.deepcopy(flat), main, 3, nfiles, allow)
    head = []
    if t.need_main_ipath:
        head.append(line("includepath", p="ipm", abs=False))
    if t.need_abs_ipath:
        head.append(line("includepath", p=VR + "/ipa", abs=True))
    if t.need_nested:
        head.append(line("include", p="setpath.inc", abs=False))
        t.files[VR + "/proj/setpath.inc"] = [line("includepath", p="ipn", abs=False)]
    if t.need_dot:
        head.append(line("include", p="lib/setdot.inc", abs=False))
        t.files[VR + "/proj/lib/setdot.inc"] = [line("includepath", p=".", abs=False)]
    if missing:
        pos = rnd.choice(safe_cuts(body))
        body.insert(pos, line("include", p="nothere%d.inc" % rnd.randrange(100), abs=False))
    t.files[main] = head + body
    return t, main


def chain_case(rnd, depth, pad_utf8=False):
    """main includes c1.inc, which includes c2.inc, ... `depth` files deep; every file has a line before and after its include."""
    t = Tree(rnd)
    t.places = ["chain%d" % depth]
    before, after = [], []
    for i in range(depth + 1):
        path = VR + "/proj/main.asm" if i == 0 else VR + "/proj/c%d.inc" % i
        b = [instr("ldi", R(16 + i % 16), E(i % 200))]
        a = [data(1, E(i % 250), S("é%d" % i))] if i % 3 == 0 else [instr("inc", R(i % 32))]
        inc = [line("include", p="c%d.inc" % (i + 1), abs=False)] if i < depth else [instr("sleep")]
        t.files[path] = b + inc + a
        before += copy.deepcopy(b)
        after = copy.deepcopy(a) + after
    flat = before + [instr("sleep")] + after if depth <= 32 else None
    return t, VR + "/proj/main.asm", flat


def straddle_case(rnd, boundary, shift):
    """An included file in which a two-byte character lies across (shift = 1) or next to a multiple of 8 KiB."""
    t = Tree(rnd)
    t.places = ["straddle%d" % boundary]
    main = VR + "/proj/main.asm"
    text_line = data(1, S("né"), E(1))
    body = [instr("nop")] + [line("blank") for _ in range(3)] + [text_line, instr("ret")]
    t.files[main] = [instr("ldi", R(16), E(1)), line("include", p="big.inc", abs=False), instr("ldi", R(17), E(2))]
    t.files[VR + "/proj/big.inc"] = body
    t.pad = (VR + "/proj/big.inc", boundary, shift)
    flat = [instr("ldi", R(16), E(1)), instr("nop"), copy.deepcopy(text_line), instr("ret"), instr("ldi", R(17), E(2))]
    return t, main, flat


def twice_case(rnd, how):
    """One file included more than once in a build: pasted as often as it is included."""
    t = Tree(rnd)
    t.places = ["twice-" + how]
    main = VR + "/proj/main.asm"
    snip = [instr("inc", R(16)), data(1, E(0x21), E(0x22))]
    inc = lambda: line("include", p="snip.inc", abs=False)
    t.files[VR + "/proj/snip.inc"] = snip
    if how == "flat":
        t.files[main] = [instr("nop"), inc(), instr("ret"), inc(), inc(), instr("sleep")]
        flat = [instr("nop")] + copy.deepcopy(snip) + [instr("ret")] + copy.deepcopy(snip) + copy.deepcopy(snip) + [instr("sleep")]
    else:
        t.files[VR + "/proj/mod.inc"] = [instr("dec", R(17)), inc(), instr("dec", R(18))]
        t.files[main] = [inc(), line("include", p="mod.inc", abs=False), instr("ret"), line("include", p="mod.inc", abs=False)]
        mod = [instr("dec", R(17))] + copy.deepcopy(snip) + [instr("dec", R(18))]
        flat = copy.deepcopy(snip) + copy.deepcopy(mod) + [instr("ret")] + copy.deepcopy(mod)
    return t, main, flat


def shadow_case(rnd, how):
    """A directory that has the name of the included file stands where the search looks first; the file is further down the search."""
    t = Tree(rnd)
    t.places = ["dir-shadow-" + how]
    main = VR + "/proj/main.asm"
    snip = [instr("inc", R(20)), data(1, E(0x31), E(0x32))]
    if how == "caller":
        # caller-supplied directory ext holds a directory cfg.inc; the file is in an .includepath directory of the main file
        t.files[VR + "/ext/cfg.inc/keep.txt"] = [line("blank")]
        t.files[VR + "/proj/ipm/cfg.inc"] = snip
        t.files[main] = [line("includepath", p="ipm", abs=False), instr("nop"), line("include", p="cfg.inc", abs=False), instr("ret")]
    elif how == "file-as-dir":
        # the operand has a directory part; where the search looks first, a regular file has the name of that directory
        t.files[VR + "/ext/lib"] = [line("blank")]
        t.files[VR + "/proj/ipm/lib/cfg.inc"] = snip
        t.files[main] = [line("includepath", p="ipm", abs=False), instr("nop"), line("include", p="lib/cfg.inc", abs=False), instr("ret")]
    else:
        # next to the including file there is a directory of that name; the file is in the caller-supplied directory
        t.files[VR + "/proj/cfg.inc/keep.txt"] = [line("blank")]
        t.files[VR + "/ext/cfg.inc"] = snip
        t.files[main] = [instr("nop"), line("include", p="cfg.inc", abs=False), instr("ret")]
    flat = [instr("nop")] + copy.deepcopy(snip) + [instr("ret")]
    return t, main, flat


def link_case(rnd, how):
    """A relative include operand with '..' in a file that is reached through a symbolic link to its directory: the path is
    the operating system's to resolve ('..' of a linked directory is the parent of the directory the link points to), not the
    text's.  The specification sees the tree as the operating system shows it (t.view: path as joined -> file that is there)."""
    t = Tree(rnd)
    t.places = ["dotdot-" + how]
    main = VR + "/proj/main.asm"
    snip = [instr("inc", R(21)), data(1, E(0x41), E(0x42))]
    decoy = [instr("dec", R(22)), data(1, E(0x99))]
    pre, post = [instr("ldi", R(16), E(7))], [instr("ret")]
    t.links, t.view = [], {}
    if how in ("linked", "linked-no-decoy", "linked-ipath"):
        phys = VR + "/vendor/pkg/drivers/uart.inc"
        t.files[VR + "/vendor/pkg/common.inc"] = snip
        if how == "linked":
            t.files[VR + "/proj/common.inc"] = decoy            # what a textual reading of proj/drivers/.. finds
        # (with the .includepath form the plain name would also be looked for in the directories of the files read so far,
        #  proj among them, and the statement gives no priority: no decoy there)
        t.links.append(("proj/drivers", "../vendor/pkg/drivers"))
        if how == "linked-ipath":
            t.files[phys] = pre + [line("includepath", p="..", abs=False), line("include", p="common.inc", abs=False)] + post
            t.view[VR + "/proj/drivers/../common.inc"] = VR + "/vendor/pkg/common.inc"
        else:
            t.files[phys] = pre + [line("include", p="../common.inc", abs=False)] + post
            t.view[VR + "/proj/drivers/../common.inc"] = VR + "/vendor/pkg/common.inc"
        t.view[VR + "/proj/drivers/uart.inc"] = phys
        t.files[main] = [instr("nop"), line("include", p="drivers/uart.inc", abs=False), instr("sei")]
    else:
        # no link: the same operand in a plain subdirectory
        t.files[VR + "/proj/sub/uart.inc"] = pre + [line("include", p="../common.inc", abs=False)] + post
        t.files[VR + "/proj/common.inc"] = snip
        t.files[VR + "/vendor/pkg/common.inc"] = decoy
        t.view[VR + "/proj/sub/../common.inc"] = VR + "/proj/common.inc"
        t.files[main] = [instr("nop"), line("include", p="sub/uart.inc", abs=False), instr("sei")]
    flat = [instr("nop")] + copy.deepcopy(pre) + copy.deepcopy(snip) + copy.deepcopy(post) + [instr("sei")]
    return t, main, flat


def render_tree(t, root):
    """Renders every file (assigning line numbers) with the virtual root replaced by the real one."""
    texts = {}
    for vpath, lines in t.files.items():
        real = []
        for l in lines:
            if l["k"] in ("include", "includepath") and l.get("abs"):
                l2 = dict(l)
                l2["p"] = l["p"].replace(VR, root, 1)
                real.append(l2)
            else:
                real.append(l)
        text = render(real)
        pad = getattr(t, "pad", None)
        if pad and pad[0] == vpath:
            # lengthen the comment-only second line so that the first byte of the 'é' lands on offset boundary - shift
            raw = text.encode("utf-8")
            at = raw.index("é".encode("utf-8"))
            fill = pad[1] - pad[2] - at
            ls = text.split("\n")
            ls[1] = "; " + "x" * (fill - 2)
            text = "\n".join(ls)
            assert text.encode("utf-8").index("é".encode("utf-8")) == pad[1] - pad[2]
        for l, r in zip(lines, real):
            l["ln"] = r["ln"]
        texts[vpath[len(VR) + 1:]] = text
    return texts


def check(prop, tier, seed):
    build_harness()
    devices = isamod.device_table()
    rnd = random.Random(seed)
    scratch = Scratch(prop)
    v = Verdict(prop, tier, seed, "model_checking")
    try:
        cases = []
        n = 400 if tier == "quick" else 4000
        for bi, flat in enumerate(base_programs()):
            for k in range(n):
                allow = PLACES if k % 3 else [PLACES[k // 3 % len(PLACES)]]
                missing = (k % 10 == 9)
                t, main = make_case(rnd, flat, allow, missing)
                cases.append((t, main, flat, missing))
        # chains of files nested up to the limit and one beyond; included files with a two-byte character across 8 KiB boundaries
        for depth in (1, 2, 7, 30, 31, 32, 33):
            t, main, flat = chain_case(rnd, depth)
            cases.append((t, main, flat if flat is not None else [instr("nop")], flat is None))
        for how in ("flat", "nested"):
            t, main, flat = twice_case(rnd, how)
            cases.append((t, main, flat, False))
        for how in ("caller", "beside", "file-as-dir"):
            t, main, flat = shadow_case(rnd, how)
            cases.append((t, main, flat, False))
        for how in ("linked", "linked-no-decoy", "linked-ipath", "plain"):
            t, main, flat = link_case(rnd, how)
            cases.append((t, main, flat, False))
        for boundary in (8192, 16384, 4096, 65536):
            for shift in (0, 1, 2):
                t, main, flat = straddle_case(rnd, boundary, shift)
                cases.append((t, main, flat, False))
        jobs, metas = [], []
        for i, (t, main, flat, missing) in enumerate(cases):
            root = scratch.sub("c%d" % i)
            texts = render_tree(t, root)
            flatp = copy.deepcopy(flat)
            flatsrc = render(flatp)
            jobs.append({"k": "file", "id": 2 * i, "root": root, "files": texts, "dirs": ["work/cw", "ext", "proj"], "cwd": "work",
                         "main": root + "/proj/main.asm", "paths": [root + "/ext"], "links": [list(x) for x in getattr(t, "links", [])]})
            jobs.append({"k": "str", "id": 2 * i + 1, "src": flatsrc})
            metas.append((texts, flatp, flatsrc))
        res = run_jobs(jobs, workers=1)          # chdir is process-wide: one worker process, sequential
        events = []
        for i, (t, main, flat, missing) in enumerate(cases):
            texts, flatp, flatsrc = metas[i]
            msg_texts = [l["txt"] for l in flat if l["k"] == "message"]
            r = res[2 * i]
            names = [l["p"] for ls in t.files.values() for l in ls if l["k"] == "include"]
            # (the specification says which file is the missing one; the recorder only reports which names the text mentions)
            miss = [nm for nm in names if nm.startswith("nothere")] or [nm for nm in names if nm == "c33.inc"]
            named = r["r"] == "err" and any(nm in r.get("text", "") for nm in miss)
            fs = {p: {"dir": os.path.dirname(p), "lines": clean(ls)} for p, ls in t.files.items()}
            for alias, phys in getattr(t, "view", {}).items():      # the tree as the operating system shows it through links and '..'
                fs[alias] = {"dir": os.path.dirname(alias), "lines": clean(t.files[phys])}
            events.append({"fs": fs, "cwd": VR + "/work", "main": main, "paths": [VR + "/ext"], "devs": devs_for(flat, devices),
                           "flat": clean(flatp), "hasflat": not missing, "res": digest(r, True, msg_texts),
                           "resflat": digest(res[2 * i + 1], True, msg_texts), "named": named})
        oks = [e for e in events if e["res"]["r"] == "ok"]
        can = []
        for e in (oks[0], oks[len(oks) // 2]):
            c = copy.deepcopy(e)
            c["res"]["code"][0] ^= 1
            can.append(c)
        c = copy.deepcopy(oks[1]); c["resflat"]["r"] = "err"; can.append(c)
        rejected, stats = validate_events(events + can, "Trace_Files", scratch)
        ncan = sum(1 for i in range(len(events), len(events) + len(can)) if i in rejected)
        if ncan != len(can):
            raise ToolError("binding self-test failed: %d of %d corrupted events were rejected" % (ncan, len(can)))

        def matcher(k, case):
            kind = k.get("match", {}).get("kind")
            if kind == "includepath-not-visible-after-return":
                return "ipath-nested" in case["places"] and case["observed"]["r"] == "err" and "setpath.inc" not in case["observed"].get("text", "")
            return False
        for i in sorted(rejected):
            if i >= len(events):
                continue
            t, main, flat, missing = cases[i]
            texts, flatp, flatsrc = metas[i]
            r = res[2 * i]
            v.reject({"tag": "missing" if missing else "tree", "places": t.places, "files": texts, "flat_source": flatsrc,
                      "observed": {k: r.get(k) for k in ("r", "code", "eeprom", "text", "msgs", "rf")},
                      "observed_flat": {k: res[2 * i + 1].get(k) for k in ("r", "code", "eeprom", "text")},
                      "expected": rejected[i]}, matcher)
        v.summary(lambda x: (x["tag"], ",".join(sorted(set(x["places"]))), x["observed"]["r"], "expected " + ("ok" if x["expected"]["tree"].get("ok") else "err")))
        places = {}
        for t, _, _, _ in cases:
            for p in t.places:
                places[p] = places.get(p, 0) + 1
        v.coverage.update({
            "states": stats["states"], "transitions": stats["transitions"], "traces_validated_against_impl": 2 * len(events),
            "evaluations": 2 * len(events), "distinct_nontrivial": len({json.dumps(m[0], sort_keys=True) for m in metas}),
            "rule": "%d base programs (symbols, macro, device, conditionals, data, aliases) x seeded cuts into trees of up to 4 files / depth 3 "
                    "(no conditional or macro definition split) x placement of every file in {same directory, sub-directory in the path, "
                    "caller-supplied directory, .includepath of the main file (relative / absolute), .includepath declared in a nested file, "
                    ".includepath \".\" in a helper of another directory, a file with the includer's own base name in a sub-directory, "
                    "path relative to the process directory} x optional .exit (followed by garbage) x missing-file variants; "
                    "build_file(tree) and build_str(flattened) both judged; distinct = distinct trees" % len(base_programs()),
            "placements": places, "files_per_tree_max": max(len(t.files) for t, _, _, _ in cases),
            "rejected_events": len([i for i in rejected if i < len(events)]),
            "binding_selftest": "%d/%d corrupted events rejected" % (ncan, len(can)),
            "paste_theorem_checked_on": sum(1 for e in events if e["hasflat"]),
            "tlc": stats, "exhaustive": False,
            "samples": [{"files": metas[i][0], "observed": events[i]["res"]["r"]} for i in sorted(rnd.sample(range(len(cases)), 3))],
        })
        v.assumptions += ["the same file name never exists in more than one searched directory (the statement gives no priority order)",
                          "conditionals and macro definitions are not split across files",
                          "line numbers of messages inside included files are not compared",
                          "TLC, Json/IOUtils overrides; renderer and recorder"]
        return v.finish()
    finally:
        scratch.cleanup()
