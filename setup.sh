#!/bin/sh
# Builds the framework from files on disk only (offline): the harness crate, and a
# syntax/semantic pass of SANY over every specification module.
set -e
cd "$(dirname "$0")"
export CARGO_NET_OFFLINE=true
mkdir -p work evidence replays
[ -f harness/Cargo.lock ] || cp /repo/Cargo.lock harness/Cargo.lock
(cd harness && cargo build --release --offline)
for m in spec/*.tla; do
  ( cd spec && java -cp /opt/veriftools/tla/tla2tools.jar:/opt/veriftools/tla/CommunityModules-deps.jar tla2sany.SANY "$(basename "$m")" >/dev/null 2>&1 ) || { echo "SANY failed on $m"; exit 1; }
done
echo setup ok
