SPECIFICATION Spec
CONSTANTS MaxDepth = 6
          Broken = FALSE
INVARIANT Theorems
CHECK_DEADLOCK FALSE
