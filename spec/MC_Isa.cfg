SPECIFICATION Spec
INVARIANT RoundTrip
INVARIANT WordRange
INVARIANT LenOK
INVARIANT LegalIffSig
CHECK_DEADLOCK FALSE
