------------------------------- MODULE MC_Isa -------------------------------
(***************************************************************************)
(* Theorems about AvrIsa itself, checked exhaustively by TLC: one initial  *)
(* state per legal instruction form (two-word address spaces: a boundary   *)
(* set), invariants evaluated on each.                                     *)
(***************************************************************************)
EXTENDS AvrIsa

BoundaryAddr(hi) ==
  LET P == {2 ^ i : i \in 0..22} IN
  {v \in P \cup {p - 1 : p \in P} \cup {p + 1 : p \in P} \cup {hi - p : p \in P} \cup {0, hi, 21845, 43690, 1398101, 2796202} :
     v >= 0 /\ v <= hi}

ClassVals(c, addr) ==
  CASE c \in DOMAIN RegClass -> {R(n) : n \in RegClass[c]}
    [] c \in {"A16", "A22"}   -> {E(v) : v \in BoundaryAddr(NumClass[c][2])}
    [] c \in DOMAIN NumClass -> {E(v) : v \in NumClass[c][1]..NumClass[c][2]}
    [] c \in DOMAIN RelClass -> {E(addr + 1 + d) : d \in RelClass[c][1]..RelClass[c][2]}
    [] c = "IxF"   -> {Ix(r, m, 0) : r \in {"X", "Y", "Z"}, m \in {"none", "inc", "dec"}}
                      \cup {Ix(r, "disp", q) : r \in {"Y", "Z"}, q \in 0..63}
    [] c = "IxLpm" -> {Ix("Z", "none", 0), Ix("Z", "inc", 0)}
    [] c = "IxZinc" -> {Ix("Z", "inc", 0)}

OpsOf(sig, addr) ==
  CASE Len(sig) = 0 -> { << >> }
    [] Len(sig) = 1 -> { <<a>> : a \in ClassVals(sig[1], addr) }
    [] Len(sig) = 2 -> { <<a, b>> : a \in ClassVals(sig[1], addr), b \in ClassVals(sig[2], addr) }

Addrs == {0, 3000}
Cores == {"classic", "reduced"}

VARIABLES mn, ops, core, addr
vars == <<mn, ops, core, addr>>

Init == /\ mn \in Mnemonics
        /\ core \in Cores
        /\ addr \in Addrs
        /\ (core = "reduced" => mn \in {"lds", "sts"})      \* the only forms that differ
        /\ (addr # 0 => \E s \in Sigs(mn, core) : \E i \in 1..Len(s) : s[i] \in DOMAIN RelClass)
        /\ \E sig \in Sigs(mn, core) : ops \in {o \in OpsOf(sig, addr) : Legal(mn, o, core, addr)}
Next == UNCHANGED vars
Spec == Init /\ [][Next]_vars

Words == Encode(mn, ops, core, addr)
RoundTrip  == Decode(Words, core, addr) = Canon(mn, ops, core, addr)
WordRange  == \A i \in 1..Len(Words) : Words[i] \in 0..65535
LenOK      == Len(Words) = Len16(mn, core)
\* every enumerated form is legal by construction; an illegal neighbour is not encodable
LegalIffSig == Legal(mn, ops, core, addr)
=============================================================================
