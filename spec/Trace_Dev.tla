------------------------------ MODULE Trace_Dev ------------------------------
(***************************************************************************)
(* PartFileAgrees: where the tool ships a vendor part-definition file for  *)
(* a device of the table, the capacities of the table row are the ones the *)
(* file declares.  event: [name, row, file, has] -- row: the table row     *)
(* exported from the implementation; file: the figures an independent      *)
(* scanner read from the part file (flash = FLASHEND+1 words, ramstart =   *)
(* SRAM_START, ramsize = SRAM_SIZE, eeprom = E2END+1 bytes or 0);          *)
(* has: which of them the file declares.                                   *)
(***************************************************************************)
EXTENDS Json, IOUtils, Integers, Sequences, FiniteSets, TLC, SequencesExt
Rec_ == ndJsonDeserialize(IOEnv.TRACE)
VARIABLES l, nbad
vars == <<l, nbad>>
Agrees(e) == \A f \in ToSet(e.has) : e.row[f] = e.file[f]
Init == l = 1 /\ nbad = 0
Judge(ok) ==
  /\ l <= Len(Rec_)
  /\ Agrees(Rec_[l]) = ok
  /\ IF ok THEN nbad' = nbad
     ELSE /\ PrintT(<<"REJECT", l, ToJson([file |-> Rec_[l].file])>>) /\ nbad' = nbad + 1
  /\ l' = l + 1
Next == Judge(TRUE) \/ Judge(FALSE)
Spec == Init /\ [][Next]_vars
AllConsumed == TLCGet("stats").diameter - 1 = Len(Rec_)
=============================================================================
