------------------------------ MODULE Trace_Expr ------------------------------
(***************************************************************************)
(* Judges recorded evaluations of constant expressions (.dq <expr>).       *)
(* event: [ast, toks, equs (name -> AST), labels (name -> Nat), pc,        *)
(*         res \in {"ok","err","panic"}, b (8 bytes, little-endian),       *)
(*         via \in {"dq","byte","org"}, n]                                 *)
(* via = "byte": the expression is the size of a reservation, n the RAM    *)
(* usage reported; via = "org": it is an origin, n the word address the    *)
(* next instruction was put at.  Sizes and origins of 0..1000 must come    *)
(* out as the table's value; what happens to negative and huge ones is the *)
(* business of other properties (C12), an error value must fail the build. *)
(* The rendered token sequence must be the specification's rendering of    *)
(* the tree (only the parentheses the operator table requires), and the    *)
(* outcome must be the table's value or an error.                          *)
(***************************************************************************)
EXTENDS Expr, Json, IOUtils

Rec == ndJsonDeserialize(IOEnv.TRACE)

VARIABLES l, nbad, nun
vars == <<l, nbad, nun>>

Expected(e) == Eval(e.ast, [pc |-> e.pc, labels |-> e.labels, sets |-> << >>, equs |-> e.equs])

Brief(x) == IF x.un THEN [ok |-> "unspecified"]
            ELSE IF x.ok THEN [ok |-> "ok", b |-> Bytes8(x.v)] ELSE [ok |-> "err"]

SmallSize(v) == ~v.neg /\ Small(v) /\ ToInt(v) <= 1000
Accept(e, x) ==
  /\ e.toks = Render(e.ast)
  /\ \/ x.un /\ e.res \in {"ok", "err"}          \* left open by the table -- but never a panic
     \/ x.ok /\ e.via = "dq" /\ e.res = "ok" /\ e.b = Bytes8(x.v)
     \/ x.ok /\ e.via # "dq" /\ SmallSize(x.v) /\ e.res = "ok" /\ e.n = ToInt(x.v)
     \/ x.ok /\ e.via # "dq" /\ ~SmallSize(x.v) /\ e.res \in {"ok", "err"}
     \/ ~x.ok /\ ~x.un /\ e.res = "err"

Init == l = 1 /\ nbad = 0 /\ nun = 0

Judge(ok) ==
  /\ l <= Len(Rec)
  /\ LET x == Expected(Rec[l]) IN
       /\ Accept(Rec[l], x) = ok
       /\ nun' = IF x.un THEN nun + 1 ELSE nun
       /\ IF ok THEN nbad' = nbad
          ELSE /\ PrintT(<<"REJECT", l, ToJson(Brief(x))>>)
               /\ nbad' = nbad + 1
  /\ l' = l + 1

Next == Judge(TRUE) \/ Judge(FALSE)
Spec == Init /\ [][Next]_vars
AllConsumed == /\ TLCGet("stats").diameter - 1 = Len(Rec)
               /\ PrintT(<<"UNSPECIFIED", TLCGet("distinct")>>)
=============================================================================
