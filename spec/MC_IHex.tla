------------------------------- MODULE MC_IHex -------------------------------
(***************************************************************************)
(* Read(Write(image)) = image for all lengths 0..MaxLen with toy record    *)
(* and block sizes (the boundary structure of the format, exhaustively),   *)
(* and non-vacuity: writers with a typical defect are rejected.            *)
(***************************************************************************)
EXTENDS IHex
CONSTANT MaxLen
VARIABLES n, seed, reclen, block
vars == <<n, seed, reclen, block>>
Init == n \in 0..MaxLen /\ seed \in {0, 3} /\ reclen \in 2..5 /\ block \in {16, 32}
Next == UNCHANGED vars
Spec == Init /\ [][Next]_vars

Good == Write(n, seed, reclen, block)
RoundTrip == Reproduces(Good, n, seed)
\* defects a writer can have, each must be noticed as soon as the image is large enough to show it
NoBlockHeaders == SelectSeq(Good, LAMBDA r : r.type # 2)                 \* offsets restart but the base never moves
DropLast == SubSeq(Good, 1, Len(Good) - 2) \o <<Good[Len(Good)]>>        \* last data record missing
DoubleEof == Good \o <<Good[Len(Good)]>>
BadSum == [Good EXCEPT ![1] = [@ EXCEPT !.sum = (@ + 1) % 256]]
Rejects ==
  /\ (n > block => ~Reproduces(NoBlockHeaders, n, seed))
  /\ (n > 0 => ~Reproduces(DropLast, n, seed))
  /\ ~Reproduces(DoubleEof, n, seed)
  /\ ~Reproduces(BadSum, n, seed)
  /\ ~Reproduces(Good, n + 1, seed)
  /\ (n > 0 => ~Reproduces(Good, n, seed + 1))
=============================================================================
