---------------------------- MODULE Trace_Pipeline ----------------------------
(***************************************************************************)
(* Validates the events the passes of the real assembler emit through the  *)
(* verification hooks, one event per step, for any input at all (no        *)
(* abstract program needed): the repository's own tests and fixtures, the  *)
(* shipped include files, every program a check builds.                    *)
(*                                                                         *)
(* Each event must be explainable by the corresponding step of the         *)
(* specification (C02 / C03 / C06 / C12 evaluated on every step):          *)
(*  item1  an item is laid out where the previous one ended; its size is   *)
(*         AvrIsa!Len16 / the data rule                                    *)
(*  seg1   a block starts at its .org or at the counter of its segment     *)
(*         type, never below it; the counter moves to its end              *)
(*  seg2   the image is padded exactly up to the block's start             *)
(*  item2  the item is emitted at the address layout gave it, with as many *)
(*         bytes as layout counted; an instruction's words decode (by the  *)
(*         independent decoder) to its mnemonic or documented alias        *)
(*  limits the images are the concatenation of the emitted fragments; RAM  *)
(*         usage is the extent of the data segment                         *)
(*  end    the build succeeds iff the device's capacities are respected    *)
(* Only event-local contradictions are reported; an event stream with      *)
(* events missing (hooks moved or dropped) is consumed as far as it goes.  *)
(***************************************************************************)
EXTENDS Integers, Sequences, FiniteSets, TLC, Json, IOUtils
Isa == INSTANCE AvrIsa
Rec_ == ndJsonDeserialize(IOEnv.TRACE)

VARIABLES l, nbad, st,
          rd       \* the reader: a stack (one entry per line source being read: file, included file, macro body)
                   \* of conditional stacks <<[active, taken, else]>>
vars == <<l, nbad, st, rd>>

Zeros(n) == [i \in 1..n |-> 0]
Unit(t) == IF t = "code" THEN 2 ELSE 1
Fresh(core, ramstart) ==
  [core |-> core, ramstart |-> ramstart, cnt |-> [code |-> 0, data |-> ramstart, eeprom |-> 0],
   open |-> << >>, segs |-> << >>, s2 |-> 0, i2 |-> 0, img |-> [code |-> << >>, eeprom |-> << >>],
   limits |-> FALSE, fits |-> TRUE, linked |-> FALSE]

CanonMn(mn) ==
  CASE mn = "tst" -> "and" [] mn = "clr" -> "eor" [] mn = "lsl" -> "add" [] mn = "rol" -> "adc"
    [] mn = "ser" -> "ldi" [] mn = "sbr" -> "ori" [] mn = "cbr" -> "andi"
    [] mn \in DOMAIN Isa!SeNames -> "bset" [] mn \in DOMAIN Isa!ClNames -> "bclr"
    [] mn \in DOMAIN Isa!BrSet -> "brbs" [] mn \in DOMAIN Isa!BrClr -> "brbc"
    [] mn = "ldd" -> "ld" [] mn = "std" -> "st"
    [] OTHER -> mn

SizeRule(e, core) ==
  CASE e.k \in {"label", "sym", "pragma"} -> e.size = 0
    [] e.k = "instr" -> (e.mn \in Isa!Mnemonics => e.size = Isa!Len16(e.mn, core))
    [] e.k = "data"  -> IF e.t = "code" THEN e.size = (IF e.w = 1 THEN (e.len + 1) \div 2 ELSE e.n * (e.w \div 2))
                        ELSE e.size = (IF e.w = 1 THEN e.len ELSE e.n * e.w)
    [] e.k = "byte"  -> e.size = e.n
    [] OTHER -> TRUE

Last(s) == s[Len(s)]
Kept(e) == e.k \in {"instr", "data", "sym"} \/ (e.k = "byte" /\ e.t = "eeprom")

RECURSIVE WordsOf(_, _)
WordsOf(b, i) == IF i + 1 > Len(b) THEN << >> ELSE <<b[i] + 256 * b[i + 1]>> \o WordsOf(b, i + 2)

\* [s |-> new state, ok |-> the event is explained]
Step(s, e) ==
  CASE e.ev = "pass1" -> [s |-> Fresh(IF e.avr8l THEN "reduced" ELSE "classic", e.ram_start), ok |-> TRUE]
    \* emission follows a layout only if it is handed that layout's segments (the passes can be called on their own)
    [] e.ev = "pass2" ->
         LET nitems == LET RECURSIVE Sum(_) Sum(i) == IF i > Len(s.segs) THEN 0 ELSE Len(s.segs[i].items) + Sum(i + 1) IN Sum(1)
             linked == e.segments = Len(s.segs) /\ e.items = nitems /\ s.open = << >>
         IN [s |-> [s EXCEPT !.s2 = 0, !.i2 = 0, !.img = [code |-> << >>, eeprom |-> << >>], !.limits = FALSE,
                             !.segs = IF linked THEN @ ELSE << >>, !.linked = linked],
             ok |-> TRUE]
    [] e.ev = "item1" ->
         [s  |-> [s EXCEPT !.open = Append(@, e)],
          ok |-> /\ (s.open # << >> => e.addr = Last(s.open).addr + Last(s.open).size)
                 /\ SizeRule(e, s.core)]
    [] e.ev = "seg1" ->
         LET endOf == IF s.open = << >> THEN e.start ELSE Last(s.open).addr + Last(s.open).size IN
         [s  |-> [s EXCEPT !.cnt[e.t] = e.end, !.open = << >>,
                           !.segs = Append(@, [t |-> e.t, start |-> e.start, items |-> SelectSeq(s.open, Kept)])],
          ok |-> /\ e.counter = s.cnt[e.t]
                 /\ e.start = (IF e.org = 0 THEN e.counter ELSE e.org)
                 /\ e.start >= e.counter
                 /\ (s.open # << >> => s.open[1].addr = e.start)
                 /\ e.end = endOf]
    [] e.ev = "seg2" ->
         LET k == s.s2 + 1
             known == k <= Len(s.segs)
             len == IF e.t = "code" THEN e.code_len ELSE e.eeprom_len
         IN
         [s  |-> [s EXCEPT !.s2 = k, !.i2 = 0,
                           !.img = IF e.t = "data" \/ len < Len(@[e.t]) THEN @
                                   ELSE [@ EXCEPT ![e.t] = @ \o Zeros(len - Len(@))]],
          ok |-> /\ (known => e.t = s.segs[k].t /\ e.addr = s.segs[k].start)
                 /\ (e.t # "data" => len = Unit(e.t) * e.addr /\ len >= Len(s.img[e.t]))
                 /\ e.code_len >= Len(s.img.code) /\ e.eeprom_len >= Len(s.img.eeprom)]
    [] e.ev = "item2" ->
         LET i == s.i2 + 1
             known == s.s2 >= 1 /\ s.s2 <= Len(s.segs) /\ i <= Len(s.segs[s.s2].items)
             it == s.segs[s.s2].items[i]
         IN
         [s  |-> [s EXCEPT !.i2 = i, !.img = IF e.t = "data" THEN @ ELSE [@ EXCEPT ![e.t] = @ \o e.bytes]],
          ok |-> /\ (known => /\ e.addr = it.addr /\ e.k = it.k
                             /\ (e.t # "data" /\ e.k # "sym" => Len(e.bytes) = Unit(e.t) * it.size))
                 /\ (e.k = "instr" /\ e.mn \in Isa!Mnemonics /\ Len(e.bytes) \in {2, 4}
                     /\ ~(s.core = "reduced" /\ e.mn \in {"ld", "ldd", "st", "std"})
                       => Isa!Decode(WordsOf(e.bytes, 1), s.core, e.addr).mn = CanonMn(e.mn))]
    [] e.ev = "limits" ->
         [s  |-> [s EXCEPT !.limits = TRUE,
                           !.fits = e.code_len <= 2 * e.flash /\ e.eeprom_len <= e.eeprom /\ e.ram_filling <= e.ram],
          ok |-> /\ e.code_len = Len(s.img.code) /\ e.eeprom_len = Len(s.img.eeprom)
                 /\ (e.has_images => e.code = s.img.code /\ e.eeprom_image = s.img.eeprom)
                 /\ (s.linked => e.ram_filling = s.cnt.data - s.ramstart)]
    [] e.ev = "end" ->
         [s  |-> s,
          ok |-> IF s.limits THEN (e.r = "ok") = s.fits ELSE e.r # "ok"]
    [] OTHER -> [s |-> s, ok |-> TRUE]

-----------------------------------------------------------------------------
(* The reader (C08 on every line of every input): see ReaderJudge.tla.     *)
Rj == INSTANCE ReaderJudge
ReaderEvents == Rj!ReaderEvents
Reader(r, e) == Rj!Reader(r, e)

Init == l = 1 /\ nbad = 0 /\ st = Fresh("classic", 96) /\ rd = << >>
Consume(ok) ==
  /\ l <= Len(Rec_)
  /\ LET isr == Rec_[l].ev \in ReaderEvents
         r == IF isr THEN [s |-> st, ok |-> Reader(rd, Rec_[l]).ok] ELSE Step(st, Rec_[l]) IN
       /\ r.ok = ok
       /\ st' = IF Rec_[l].ev = "end" THEN Fresh("classic", 96) ELSE r.s      \* nothing of a build outlives its end
       /\ rd' = IF isr THEN Reader(rd, Rec_[l]).r ELSE IF Rec_[l].ev = "end" THEN << >> ELSE rd
       /\ IF ok THEN nbad' = nbad
          ELSE /\ PrintT(<<"REJECT", l, ToJson([ev |-> Rec_[l].ev])>>) /\ nbad' = nbad + 1
  /\ l' = l + 1
Explained == Consume(TRUE)
Unexplained == Consume(FALSE)
Next == Explained \/ Unexplained
Spec == Init /\ [][Next]_vars
AllConsumed == TLCGet("stats").diameter - 1 = Len(Rec_)
=============================================================================
