------------------------------ MODULE Assembler ------------------------------
(***************************************************************************)
(* The assembler as a line-level state machine, shaped like the            *)
(* implementation (read -> expand -> layout -> emit -> limits, one step    *)
(* per line or item) but with the reference meaning: a conditional stack   *)
(* with a taken flag, macro substitution on the syntax tree, one location  *)
(* counter per segment type, symbols bound by the documented rules.        *)
(*                                                                         *)
(* A program is a sequence of abstract lines (records, see DESIGN.md       *)
(* section 2.4):  every line has k (kind), ln (physical line number) and   *)
(* lab (label written on the line, "" if none), plus per kind:             *)
(*   instr  mn, ops          data   w, elems         byte  e               *)
(*   org    e                seg    s                equ/set  n, e         *)
(*   def    n, r             undef  n                define   n            *)
(*   if/elif e               ifdef/ifndef n          else endif            *)
(*   macro  n                endm                    call  n, args         *)
(*   device n                message/warning/error txt                     *)
(*   exit   garbage   blank  include/includepath p  (file layer: Files)    *)
(* operands: [k|->"r",n] [k|->"e",e] [k|->"ix",reg,mode,q] [k|->"arg",i]   *)
(* data elements: [k|->"e",e] [k|->"s",b]                                  *)
(***************************************************************************)
EXTENDS Expr, SequencesExt
Isa == INSTANCE AvrIsa
Dv  == INSTANCE Devices

CondKinds == {"if", "ifdef", "ifndef", "elif", "else", "endif"}
ItemKinds == {"instr", "data", "byte", "org", "seg", "set", "def", "undef", "call"}

-----------------------------------------------------------------------------
(* Macro parameters: @i stands for the i-th argument of the call,          *)
(* substituted as a unit (on the syntax tree).  A parameter without        *)
(* argument leaves a marker; it is an error where the line is assembled or *)
(* the condition evaluated, not in an unselected branch.                   *)

HasArg(args, i) == i + 1 <= Len(args)
BadAst == [t |-> "bad"]
RECURSIVE SubstE(_, _)
SubstE(a, args) ==
  CASE a.t = "arg" -> IF HasArg(args, a.i) /\ args[a.i + 1].k = "e"
                      THEN [t |-> "par", e |-> args[a.i + 1].e] ELSE BadAst
    [] a.t \in {"un", "fn", "par"} -> [a EXCEPT !.e = SubstE(a.e, args)]
    [] a.t = "bin" -> [a EXCEPT !.l = SubstE(a.l, args), !.r = SubstE(a.r, args)]
    [] OTHER -> a
RECURSIVE Bad(_)
Bad(a) == CASE a.t = "bad" -> TRUE
            [] a.t \in {"un", "fn", "par"} -> Bad(a.e)
            [] a.t = "bin" -> Bad(a.l) \/ Bad(a.r)
            [] OTHER -> FALSE

SubstOp(o, args) ==
  CASE o.k = "arg" -> IF HasArg(args, o.i) THEN args[o.i + 1] ELSE [k |-> "bad"]
    [] o.k = "e"   -> [o EXCEPT !.e = SubstE(o.e, args)]
    [] o.k = "ix"  -> IF o.mode = "disp" THEN [o EXCEPT !.q = SubstE(o.q, args)] ELSE o
    [] OTHER -> o
BadOp(o) == o.k = "bad" \/ (o.k = "e" /\ Bad(o.e)) \/ (o.k = "ix" /\ o.mode = "disp" /\ Bad(o.q))

SubstSeq(s, args) == [i \in 1..Len(s) |-> SubstOp(s[i], args)]
SubstLine(line, args) ==
  CASE line.k = "instr" -> [line EXCEPT !.ops = SubstSeq(@, args)]
    [] line.k = "call"  -> [line EXCEPT !.args = SubstSeq(@, args)]
    [] line.k = "data"  -> [line EXCEPT !.elems = SubstSeq(@, args)]
    [] line.k \in {"if", "elif", "equ", "set", "org", "byte"} -> [line EXCEPT !.e = SubstE(@, args)]
    [] OTHER -> line
BadLine(line) ==
  CASE line.k = "instr" -> \E i \in 1..Len(line.ops) : BadOp(line.ops[i])
    [] line.k = "call"  -> \E i \in 1..Len(line.args) : BadOp(line.args[i])
    [] line.k = "data"  -> \E i \in 1..Len(line.elems) : BadOp(line.elems[i])
    [] line.k \in {"if", "elif", "equ", "set", "org", "byte"} -> Bad(line.e)
    [] OTHER -> FALSE

-----------------------------------------------------------------------------
(* Reading: conditionals, macro recording, parse-time directives.          *)

\* the conditional stack is a module of its own (Cond.tla; MC_CondMachine checks it for programs of any length)
Cd == INSTANCE Cond
Frame(b) == Cd!Frame(b)
AllActive(c)    == Cd!AllActive(c)
ParentActive(c) == Cd!ParentActive(c)

InitRead(devs) ==
  [cond |-> << >>, rec |-> "", body |-> << >>, macros |-> << >>, defines |-> {}, equs |-> << >>,
   device |-> "", items |-> << >>, msgs |-> << >>, err |-> 0, stop |-> FALSE, devs |-> devs]

Fail(rs, ln) == [rs EXCEPT !.err = ln]
ParseEnv(rs) == [pc |-> 0, labels |-> << >>, sets |-> << >>, equs |-> rs.equs]

WithLabel(rs, line) ==
  IF line.lab = "" THEN rs
  ELSE [rs EXCEPT !.items = Append(@, [k |-> "label", ln |-> line.ln, n |-> line.lab])]
EmitItem(rs, line) == [WithLabel(rs, line) EXCEPT !.items = Append(@, line)]

(* a condition is a constant expression over literals and .equ constants   *)
CondValue(rs, e) == Eval(e, ParseEnv(rs))

CondStep(rs, line) ==
  LET c == rs.cond
      n == Len(c)
  IN
  CASE line.k \in {"if", "ifdef", "ifndef"} ->
         IF ~Cd!OpenEvaluates(c)
         THEN [rs EXCEPT !.cond = Cd!Open(c, FALSE)]           \* the condition is not looked at
         ELSE IF line.k = "if"
              THEN LET v == CondValue(rs, line.e) IN
                   IF ~v.ok THEN Fail(rs, line.ln)
                   ELSE [rs EXCEPT !.cond = Cd!Open(c, ~IsZero(v.v))]
              ELSE [rs EXCEPT !.cond = Cd!Open(c, (line.n \in rs.defines) = (line.k = "ifdef"))]
    [] line.k = "elif" ->
         IF ~Cd!ElifOk(c) THEN Fail(rs, line.ln)
         ELSE IF Cd!ElifEvaluates(c)
              THEN LET v == CondValue(rs, line.e) IN
                   IF ~v.ok THEN Fail(rs, line.ln)
                   ELSE [rs EXCEPT !.cond = Cd!Elif(c, ~IsZero(v.v))]
              ELSE [rs EXCEPT !.cond = Cd!Elif(c, FALSE)]      \* not its turn: the condition is not looked at
    [] line.k = "else" ->
         IF ~Cd!ElseOk(c) THEN Fail(rs, line.ln) ELSE [rs EXCEPT !.cond = Cd!Else(c)]
    [] line.k = "endif" ->
         IF ~Cd!EndifOk(c) THEN Fail(rs, line.ln) ELSE [rs EXCEPT !.cond = Cd!Endif(c)]

ExecStep(rs, line) ==
  CASE BadLine(line) -> Fail(rs, line.ln)     \* a macro parameter without argument, in a line that is assembled
    [] line.k \in {"blank", "noop"} -> WithLabel(rs, line)      \* noop: a directive without effect on the images (.pragma, .list, ...)
    [] line.k \in ItemKinds -> EmitItem(rs, line)
    [] line.k = "equ"    -> [WithLabel(rs, line) EXCEPT !.equs = (line.n :> line.e) @@ @]
    [] line.k = "define" -> [rs EXCEPT !.defines = @ \cup {line.n}]
    [] line.k = "device" -> IF rs.device # "" \/ line.n \notin DOMAIN rs.devs THEN Fail(rs, line.ln)
                            ELSE [rs EXCEPT !.device = line.n]
    [] line.k = "macro"  -> [rs EXCEPT !.rec = line.n, !.body = << >>]
    [] line.k = "exit"   -> [rs EXCEPT !.stop = TRUE]
    [] line.k \in {"message", "warning"} ->
         [rs EXCEPT !.msgs = Append(@, [k |-> line.k, txt |-> line.txt, ln |-> line.ln, at |-> line.ln])]
    [] line.k = "error"  -> Fail([rs EXCEPT !.msgs = Append(@, [k |-> line.k, txt |-> line.txt, ln |-> line.ln, at |-> line.ln])], line.ln)
    [] OTHER -> Fail(rs, line.ln)     \* garbage, a stray .endm, anything that is not assembly

(* One line.  Order matters and mirrors the language: a macro body is      *)
(* recorded verbatim; otherwise conditional directives are always looked   *)
(* at; every other line has an effect only if all enclosing branches are   *)
(* selected -- an unselected line is not even required to be assembly.     *)
StepRead(rs, line) ==
  IF rs.err # 0 \/ rs.stop THEN rs
  ELSE IF rs.rec # ""
       THEN IF line.k = "endm"
            THEN [rs EXCEPT !.macros = (rs.rec :> rs.body) @@ @, !.rec = "", !.body = << >>]
            ELSE [rs EXCEPT !.body = Append(@, line)]
  ELSE IF line.k \in CondKinds THEN CondStep(rs, line)
  ELSE IF ~AllActive(rs.cond) THEN rs
  ELSE ExecStep(rs, line)

(* Folds are written as balanced recursions (state threaded left to right, depth log n):   *)
(* TLC's cost of a recursion grows with the square of its depth.                          *)
RECURSIVE ReadRange(_, _, _, _)
ReadRange(rs, lines, lo, hi) ==
  IF lo > hi THEN rs
  ELSE IF lo = hi THEN StepRead(rs, lines[lo])
  ELSE LET mid == (lo + hi) \div 2 IN ReadRange(ReadRange(rs, lines, lo, mid), lines, mid + 1, hi)
ReadLines(rs, lines) == ReadRange(rs, lines, 1, Len(lines))

-----------------------------------------------------------------------------
MaxDepth == 4
RECURSIVE ExpandSeq(_, _, _, _)
ExpandSeq(rs, items, i, depth) ==           \* rs.items accumulates the expanded items
  IF i > Len(items) \/ rs.err # 0 THEN rs
  ELSE LET it == items[i] IN
       IF it.k # "call" THEN ExpandSeq([rs EXCEPT !.items = Append(@, it)], items, i + 1, depth)
       ELSE IF it.n \notin DOMAIN rs.macros \/ depth = 0 THEN Fail(rs, it.ln)
       ELSE LET body == [j \in 1..Len(rs.macros[it.n]) |-> SubstLine(rs.macros[it.n][j], it.args)] IN
            LET r1 == ReadLines([rs EXCEPT !.items = << >>, !.cond = << >>], body)
                     r2 == ExpandSeq([r1 EXCEPT !.items = rs.items, !.cond = rs.cond], r1.items, 1, depth - 1)
                     \* the messages this call produced (its own and those of the calls in its body) stand where the call stands
                     r3 == [r2 EXCEPT !.msgs = [j \in 1..Len(r2.msgs) |-> IF j <= Len(rs.msgs) THEN r2.msgs[j] ELSE [r2.msgs[j] EXCEPT !.at = it.ln]]]
            IN ExpandSeq(r3, items, i + 1, depth)
ExpandAll(rs) == IF rs.err # 0 THEN rs ELSE ExpandSeq([rs EXCEPT !.items = << >>], rs.items, 1, MaxDepth)

-----------------------------------------------------------------------------
(* Layout: one location counter per segment type.                          *)

DeviceOf(rs) ==
  IF rs.device = "" THEN Dv!DefaultDevice
  ELSE LET d == rs.devs[rs.device] IN
       [flash |-> d.flash, ramstart |-> d.ramstart, ramsize |-> d.ramsize, eeprom |-> d.eeprom,
        flags |-> {d.flags[i] : i \in DOMAIN d.flags}]

ElemLen(el) == IF el.k = "s" THEN Len(el.b) ELSE 1
RECURSIVE SumLen(_, _)
SumLen(elems, i) == IF i > Len(elems) THEN 0 ELSE ElemLen(elems[i]) + SumLen(elems, i + 1)
DataByteLen(it) == IF it.w = 1 THEN SumLen(it.elems, 1) ELSE it.w * Len(it.elems)
\* units the item occupies: words in the code segment (a .db line is padded to a word), bytes elsewhere
DataUnits(it, seg) == IF seg = "code" THEN (DataByteLen(it) + 1) \div 2 ELSE DataByteLen(it)

\* a non-negative size or address written as a constant expression over literals and .equ
ConstNat(e, equs) ==
  LET v == Eval(e, [pc |-> 0, labels |-> << >>, sets |-> << >>, equs |-> equs]) IN
  IF v.ok /\ ~v.v.neg /\ Small(v.v) THEN ToInt(v.v) ELSE -1

InitLayout(ramstart) ==
  [cur |-> "code", cnt |-> [code |-> 0, data |-> ramstart, eeprom |-> 0], labels |-> << >>,
   pos |-> << >>, err |-> 0]

LayoutStep(ls, it, core, equs) ==
  LET here == ls.cnt[ls.cur]
      ls1  == [ls EXCEPT !.pos = Append(@, [a |-> here, s |-> ls.cur])]
      bump(n) == [ls1 EXCEPT !.cnt[ls.cur] = here + n]
      fail == [ls1 EXCEPT !.err = it.ln]
  IN
  IF ls.err # 0 THEN ls
  ELSE CASE it.k = "seg"   -> [ls1 EXCEPT !.cur = it.s]
         [] it.k = "org"   -> LET n == ConstNat(it.e, equs) IN
                              IF n < here THEN fail ELSE [ls1 EXCEPT !.cnt[ls.cur] = n]
         [] it.k = "label" -> IF it.n \in DOMAIN ls.labels THEN fail
                              ELSE [ls1 EXCEPT !.labels = (it.n :> here) @@ @]
         [] it.k = "instr" -> IF ls.cur # "code" THEN fail ELSE bump(Isa!Len16(it.mn, core))
         [] it.k = "data"  -> IF ls.cur = "data" THEN fail ELSE bump(DataUnits(it, ls.cur))
         [] it.k = "byte"  -> LET n == ConstNat(it.e, equs) IN
                              IF ls.cur = "code" \/ n < 0 THEN fail ELSE bump(n)
         [] OTHER -> ls1

RECURSIVE LayoutRange(_, _, _, _, _, _)
LayoutRange(ls, items, lo, hi, core, equs) ==
  IF lo > hi THEN ls
  ELSE IF lo = hi THEN LayoutStep(ls, items[lo], core, equs)
  ELSE LET mid == (lo + hi) \div 2 IN
       LayoutRange(LayoutRange(ls, items, lo, mid, core, equs), items, mid + 1, hi, core, equs)
LayoutFrom(ls, items, i, core, equs) == LayoutRange(ls, items, i, Len(items), core, equs)

-----------------------------------------------------------------------------
(* Emission: operands are evaluated with the symbols in force, encoded by  *)
(* AvrIsa, and placed at the position layout assigned.                     *)

Val(v) == IF Small(v) THEN [k |-> "e", v |-> ToInt(v), huge |-> 0]
          ELSE [k |-> "e", v |-> 0, huge |-> IF v.neg THEN -1 ELSE 1]
EvalOp(o, env, defs) ==
  CASE o.k = "r" -> Isa!R(o.n)
    [] o.k = "e" -> IF o.e.t = "sym" /\ o.e.n \in DOMAIN defs THEN Isa!R(defs[o.e.n])
                    ELSE LET v == Eval(o.e, env) IN IF v.ok THEN Val(v.v) ELSE [k |-> "bad"]
    [] o.k = "ix" -> IF o.mode # "disp" THEN Isa!Ix(o.reg, o.mode, 0)
                     ELSE LET v == Eval(o.q, env) IN
                          IF ~v.ok THEN [k |-> "bad"]
                          ELSE [k |-> "ix", reg |-> o.reg, mode |-> "disp", q |-> Val(v.v).v, huge |-> Val(v.v).huge]
    [] OTHER -> [k |-> "bad"]

RECURSIVE WordsBytes(_, _)
WordsBytes(w, i) == IF i > Len(w) THEN << >> ELSE <<w[i] % 256, w[i] \div 256>> \o WordsBytes(w, i + 1)

(* .db/.dw/.dd/.dq: each expression as a w-byte little-endian value that   *)
(* fits the width (signed or unsigned reading), strings as their bytes in  *)
(* .db only.                                                               *)
RECURSIVE DataFrom(_, _, _, _)
DataFrom(elems, w, env, i) ==
  IF i > Len(elems) THEN [ok |-> TRUE, b |-> << >>]
  ELSE LET el == elems[i]
           rest == DataFrom(elems, w, env, i + 1)
       IN IF ~rest.ok THEN rest
          ELSE IF el.k = "s" THEN (IF w = 1 THEN [ok |-> TRUE, b |-> el.b \o rest.b] ELSE [ok |-> FALSE, b |-> << >>])
          ELSE IF el.k # "e" THEN [ok |-> FALSE, b |-> << >>]
          ELSE LET v == Eval(el.e, env) IN
               IF v.ok /\ (w = 8 \/ FitsWidth(v.v, w)) THEN [ok |-> TRUE, b |-> Bytes(v.v, w) \o rest.b]
               ELSE [ok |-> FALSE, b |-> << >>]

InitEmit(ramstart) ==
  [sets |-> << >>, defs |-> << >>, img |-> [code |-> << >>, eeprom |-> << >>],
   end |-> [code |-> 0, data |-> ramstart, eeprom |-> 0], err |-> 0,
   log |-> << >>]       \* what was placed where: <<[seg, a, bytes]>> (history, for the layout theorems of MC_Layout)

Unit(seg) == IF seg = "code" THEN 2 ELSE 1
\* bytes land at the position layout assigned; the gap before them is zero-filled; nothing is overwritten
Place(es, seg, a, bytes, mat) ==
  [es EXCEPT !.img[seg] = IF mat THEN Pad(@, Unit(seg) * a) \o bytes ELSE @,
             !.end[seg] = a + Len(bytes) \div Unit(seg),
             !.log = IF mat THEN Append(@, [seg |-> seg, a |-> a, bytes |-> bytes]) ELSE @]

EmitStep(es, it, p, cx) ==
  LET env  == [pc |-> p.a, labels |-> cx.labels, sets |-> es.sets, equs |-> cx.equs]
      fail == [es EXCEPT !.err = it.ln]
  IN
  IF es.err # 0 THEN es
  ELSE CASE it.k = "instr" ->
              LET ops == [i \in 1..Len(it.ops) |-> EvalOp(it.ops[i], env, es.defs)] IN
              IF \E i \in 1..Len(ops) : ops[i].k = "bad" THEN fail
              ELSE IF Dv!Unavailable(it.mn, ops, cx.flags) THEN fail
              ELSE LET r == Isa!EncodeResult(it.mn, ops, cx.core, p.a) IN
                   IF ~r.ok THEN fail ELSE Place(es, "code", p.a, WordsBytes(r.w, 1), cx.mat)
         [] it.k = "data" ->
              LET d == DataFrom(it.elems, it.w, env, 1) IN
              IF ~d.ok THEN fail
              ELSE Place(es, p.s, p.a, IF p.s = "code" /\ Len(d.b) % 2 = 1 THEN d.b \o <<0>> ELSE d.b, cx.mat)
         [] it.k = "byte" ->
              LET n == ConstNat(it.e, cx.equs) IN
              IF p.s = "eeprom" THEN
                   (IF cx.mat THEN Place(es, "eeprom", p.a, Zeros(n), TRUE)
                    ELSE [es EXCEPT !.end.eeprom = p.a + n])
              ELSE [es EXCEPT !.end.data = p.a + n]
         [] it.k = "set" ->
              LET v == Eval(it.e, env) IN
              IF ~v.ok THEN fail ELSE [es EXCEPT !.sets = (it.n :> v.v) @@ @]
         [] it.k = "def"   -> [es EXCEPT !.defs = (it.n :> it.r) @@ @]
         [] it.k = "undef" -> IF it.n \notin DOMAIN es.defs THEN fail
                              ELSE [es EXCEPT !.defs = [x \in (DOMAIN @) \ {it.n} |-> @[x]]]
         [] OTHER -> es

RECURSIVE EmitRange(_, _, _, _, _, _)
EmitRange(es, items, pos, lo, hi, cx) ==
  IF lo > hi THEN es
  ELSE IF lo = hi THEN EmitStep(es, items[lo], pos[lo], cx)
  ELSE LET mid == (lo + hi) \div 2 IN EmitRange(EmitRange(es, items, pos, lo, mid, cx), items, pos, mid + 1, hi, cx)
EmitFrom(es, items, pos, i, cx) == EmitRange(es, items, pos, i, Len(items), cx)

-----------------------------------------------------------------------------
(* A whole build of a single-file program.                                 *)

Failure(ln, phase) == [ok |-> FALSE, line |-> ln, phase |-> phase]

(* Messages are listed in source order: a message of a macro body stands   *)
(* where the (outermost) call stands, before the messages of later lines.  *)
(* Reading and expanding are two phases (as in the implementation), so the *)
(* list is put in order by the line each message came into being at; the   *)
(* order of messages of one call is the order of its expansion.            *)
SourceOrder(m) ==
  LET idx == SortSeq([i \in 1..Len(m) |-> i], LAMBDA a, b : m[a].at < m[b].at \/ (m[a].at = m[b].at /\ a < b))
  IN [j \in 1..Len(m) |-> m[idx[j]]]

Finish(r1, mat) ==
  IF r1.err # 0 THEN Failure(r1.err, "read")
  ELSE
  LET dev  == DeviceOf(r1)
      core == Dv!CoreOf(dev.flags)
      lay  == LayoutFrom(InitLayout(dev.ramstart), r1.items, 1, core, r1.equs)
      cx   == [labels |-> lay.labels, equs |-> r1.equs, core |-> core, flags |-> dev.flags, mat |-> mat]
      em   == EmitFrom(InitEmit(dev.ramstart), r1.items, lay.pos, 1, cx)
      codelen == 2 * em.end.code
      ramfill == lay.cnt.data - dev.ramstart
  IN IF lay.err # 0 THEN Failure(lay.err, "layout")
     ELSE IF em.err # 0 THEN Failure(em.err, "emit")
     ELSE IF ~Dv!Fits(dev, codelen, em.end.eeprom, ramfill) THEN Failure(0, "limits")
     ELSE [ok |-> TRUE, code |-> em.img.code, eeprom |-> em.img.eeprom,
           codelen |-> codelen, eeplen |-> em.end.eeprom,
           sizes |-> <<dev.flash, dev.eeprom, dev.ramsize>>, ramfill |-> ramfill,
           msgs |-> SourceOrder(r1.msgs), labels |-> lay.labels]

Run(prog, devs, mat) == Finish(ExpandAll(ReadLines(InitRead(devs), prog)), mat)

\* the same build with its intermediate states kept (for the theorems of MC_Layout)
RunDetail(prog, devs) ==
  LET r1   == ExpandAll(ReadLines(InitRead(devs), prog))
      dev  == DeviceOf(r1)
      core == Dv!CoreOf(dev.flags)
      lay  == LayoutFrom(InitLayout(dev.ramstart), r1.items, 1, core, r1.equs)
      cx   == [labels |-> lay.labels, equs |-> r1.equs, core |-> core, flags |-> dev.flags, mat |-> TRUE]
      em   == IF r1.err = 0 /\ lay.err = 0 THEN EmitFrom(InitEmit(dev.ramstart), r1.items, lay.pos, 1, cx)
              ELSE InitEmit(dev.ramstart)
  IN [read |-> r1, lay |-> lay, em |-> em, ok |-> r1.err = 0 /\ lay.err = 0 /\ em.err = 0]
=============================================================================
