
