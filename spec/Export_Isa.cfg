
