------------------------------ MODULE Trace_IHex ------------------------------
(***************************************************************************)
(* Judges HEX files written by the real writers.  One event per file:      *)
(*   [which, n, seed, res \in {"ok","err","panic"}, recs]                  *)
(* recs are the lexed records of the file (hex digits to integers only).   *)
(***************************************************************************)
EXTENDS IHex, Json, IOUtils, TLC
Rec_ == ndJsonDeserialize(IOEnv.TRACE)
VARIABLES l, nbad
vars == <<l, nbad>>
Accept(e) == e.res = "ok" /\ Reproduces(e.recs, e.n, e.seed)
Why(e) ==
  IF e.res # "ok" THEN "writer failed"
  ELSE LET rd == ReadFrom(InitReader, e.recs, 1, e.n, e.seed) IN
       IF ~rd.ok THEN "a record is malformed, misplaced, repeats a byte or has wrong contents"
       ELSE IF ~rd.eof THEN "no end-of-file record" ELSE "bytes missing"
Init == l = 1 /\ nbad = 0
Judge(ok) ==
  /\ l <= Len(Rec_)
  /\ Accept(Rec_[l]) = ok
  /\ IF ok THEN nbad' = nbad
     ELSE /\ PrintT(<<"REJECT", l, ToJson([why |-> Why(Rec_[l])])>>) /\ nbad' = nbad + 1
  /\ l' = l + 1
Next == Judge(TRUE) \/ Judge(FALSE)
Spec == Init /\ [][Next]_vars
AllConsumed == TLCGet("stats").diameter - 1 = Len(Rec_)
=============================================================================
