SPECIFICATION Spec
CONSTANTS MaxLen = 6
          MaxDepth_ = 3
          Broken = TRUE
INVARIANT SelectedAgree
CHECK_DEADLOCK FALSE
