------------------------------ MODULE Trace_Asm ------------------------------
(***************************************************************************)
(* Judges recorded whole-program builds against Assembler!Run.             *)
(* event: [prog, devs, mat, chkline, res]                                  *)
(*   res: [r \in {"ok","err","panic","abort"}, code, eeprom (byte seqs,    *)
(*         when mat), codelen, eeplen, sizes <<flash, eeprom, ram>>,       *)
(*         ramfill, msgs <<[txt, ints]>>, errints (integer tokens of the   *)
(*         error text)]                                                    *)
(***************************************************************************)
EXTENDS Assembler, Json, IOUtils

Rec == ndJsonDeserialize(IOEnv.TRACE)

VARIABLES l, nbad
vars == <<l, nbad>>

Expected(e) == Run(e.prog, e.devs, e.mat)

MsgsOK(x, r) ==
  /\ Len(r.msgs) = Len(x.msgs)
  /\ \A i \in 1..Len(x.msgs) :
       /\ r.msgs[i].txt = x.msgs[i].txt
       /\ x.msgs[i].ln \in ToSet(r.msgs[i].ints)

AcceptX(e, x) ==
  LET r == e.res IN
  IF x.ok
  THEN /\ r.r = "ok"
       /\ r.codelen = x.codelen /\ r.eeplen = x.eeplen
       /\ r.sizes = x.sizes /\ r.ramfill = x.ramfill
       /\ (e.mat => r.code = x.code /\ r.eeprom = x.eeprom)
       /\ MsgsOK(x, r)
  ELSE /\ r.r = "err"
       \* the error text names the offending line (asked only of single-fault programs)
       /\ (e.chkline => x.line \in ToSet(r.errints))

Brief(x) == IF x.ok THEN [ok |-> TRUE, code |-> x.code, eeprom |-> x.eeprom, codelen |-> x.codelen,
                          eeplen |-> x.eeplen, sizes |-> x.sizes, ramfill |-> x.ramfill,
                          msgs |-> x.msgs]
            ELSE [ok |-> FALSE, line |-> x.line, phase |-> x.phase]

Init == l = 1 /\ nbad = 0

Judge(ok) ==
  /\ l <= Len(Rec)
  /\ LET x == Expected(Rec[l]) IN
       /\ AcceptX(Rec[l], x) = ok
       /\ IF ok THEN nbad' = nbad
          ELSE /\ PrintT(<<"REJECT", l, ToJson(Brief(x))>>)
               /\ nbad' = nbad + 1
  /\ l' = l + 1

Next == Judge(TRUE) \/ Judge(FALSE)
Spec == Init /\ [][Next]_vars
AllConsumed == TLCGet("stats").diameter - 1 = Len(Rec)
=============================================================================
