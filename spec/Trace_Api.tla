------------------------------ MODULE Trace_Api ------------------------------
(***************************************************************************)
(* Judges recorded outcomes of builds of hostile texts against the total-  *)
(* function contract.  Events:                                             *)
(*  [ev |-> "group", head, first, arity, count, ok, err, other]            *)
(*      all single-line programs of one head and one first operand; the    *)
(*      group must be complete (GroupSize) and contain only ok / err       *)
(*  [ev |-> "case", outcome]    one multi-line text                        *)
(***************************************************************************)
EXTENDS Json, IOUtils, Integers, Sequences, FiniteSets, TLC
A == INSTANCE Api WITH Threads <- {}, Programs <- {}, Alone <- << >>, running <- 0, done <- 0, env <- 0
Rec_ == ndJsonDeserialize(IOEnv.TRACE)
VARIABLES l, nbad
vars == <<l, nbad>>
Accept(e) ==
  IF e.ev = "group"
  THEN /\ e.head \in A!Heads
       /\ e.count = A!GroupSize(e.first, e.arity)          \* the enumeration is complete
       /\ e.ok + e.err = e.count /\ e.other = << >>         \* and every outcome is a result or an error value
  ELSE A!Total(e.outcome)
Init == l = 1 /\ nbad = 0
Judge(ok) ==
  /\ l <= Len(Rec_)
  /\ Accept(Rec_[l]) = ok
  /\ IF ok THEN nbad' = nbad ELSE /\ PrintT(<<"REJECT", l, ToJson([must |-> "ok or err"])>>) /\ nbad' = nbad + 1
  /\ l' = l + 1
Next == Judge(TRUE) \/ Judge(FALSE)
Spec == Init /\ [][Next]_vars
AllConsumed == TLCGet("stats").diameter - 1 = Len(Rec_)
=============================================================================
