SPECIFICATION Spec
CONSTANTS MaxBody = 4
          MaxTop = 2
          Broken = FALSE
INVARIANT HandExpanded
CHECK_DEADLOCK FALSE
