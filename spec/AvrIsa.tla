------------------------------- MODULE AvrIsa -------------------------------
(***************************************************************************)
(* The AVR instruction set as the assembler has to implement it:           *)
(* mnemonics, operand signatures, legality, encoding, length, and an       *)
(* independent mask/value decoder.  Transcribed from the AVR Instruction   *)
(* Set Manual (DS40002198), not from the implementation.                   *)
(*                                                                         *)
(* Operands are records:                                                   *)
(*   [k |-> "r",  n |-> 0..31]                      a register             *)
(*   [k |-> "e",  v |-> Int, huge |-> -1|0|1]       an evaluated expression*)
(*   [k |-> "ix", reg |-> "X"|"Y"|"Z",                                     *)
(*                mode |-> "none"|"inc"|"dec"|"disp", q |-> Int, huge]     *)
(* `huge` # 0 says the value lies outside -2^30..2^30 on that side.        *)
(* `core` is "classic" or "reduced" (AVRrc: ATtiny4/5/9/10/20/40).         *)
(* `addr` is the word address of the instruction (for relative operands).  *)
(***************************************************************************)
EXTENDS Integers, Sequences, FiniteSets, Bitwise, TLC

R(n)  == [k |-> "r", n |-> n]
E(v)  == [k |-> "e", v |-> v, huge |-> 0]
Ix(reg, mode, q) == [k |-> "ix", reg |-> reg, mode |-> mode, q |-> q, huge |-> 0]

-----------------------------------------------------------------------------
(* Encoding classes: mnemonic -> [c |-> class, b |-> base word]            *)

RR    == [add |-> 3072, adc |-> 7168, sub |-> 6144, sbc |-> 2048, and |-> 8192,
          or |-> 10240, eor |-> 9216, cpse |-> 4096, cp |-> 5120, cpc |-> 1024,
          mov |-> 11264, mul |-> 39936]
          \* 0C00 1C00 1800 0800 2000 2800 2400 1000 1400 0400 2C00 9C00
R1Dup == [tst |-> 8192, clr |-> 9216, lsl |-> 3072, rol |-> 7168]   \* and eor add adc with Rr = Rd
Imm   == [subi |-> 20480, sbci |-> 16384, andi |-> 28672, ori |-> 24576,
          cpi |-> 12288, ldi |-> 57344, sbr |-> 24576, cbr |-> 28672]
          \* 5000 4000 7000 6000 3000 E000 6000 7000(~K)
IW    == [adiw |-> 38400, sbiw |-> 38656]                            \* 9600 9700
R1    == [com |-> 37888, neg |-> 37889, swap |-> 37890, inc |-> 37891, asr |-> 37893,
          lsr |-> 37894, ror |-> 37895, dec |-> 37898, push |-> 37391, pop |-> 36879]
          \* 9400 9401 9402 9403 9405 9406 9407 940A 920F 900F
FMul  == [mulsu |-> 768, fmul |-> 776, fmuls |-> 896, fmulsu |-> 904] \* 0300 0308 0380 0388
Rel12 == [rjmp |-> 49152, rcall |-> 53248]                           \* C000 D000
Abs22 == [jmp |-> 37900, call |-> 37902]                             \* 940C 940E
Fixed == [ijmp |-> 37897, eijmp |-> 37913, icall |-> 38153, eicall |-> 38169,
          ret |-> 38152, reti |-> 38168, spm |-> 38376, nop |-> 0, sleep |-> 38280,
          wdr |-> 38312, break |-> 38296]
          \* 9409 9419 9509 9519 9508 9518 95E8 0000 9588 95A8 9598
RB    == [sbrc |-> 64512, sbrs |-> 65024, bst |-> 64000, bld |-> 63488] \* FC00 FE00 FA00 F800
IOB   == [sbic |-> 39168, sbis |-> 39680, cbi |-> 38912, sbi |-> 39424] \* 9900 9B00 9800 9A00
SFlag == [bset |-> 37896, bclr |-> 38024]                            \* 9408 9488
FlagNo == [c |-> 0, z |-> 1, n |-> 2, v |-> 3, s |-> 4, h |-> 5, t |-> 6, i |-> 7]
FlagLetters == <<"c", "z", "n", "v", "s", "h", "t", "i">>
\* conditional branches: brbs-type (set) and brbc-type (clear) with their SREG bit
BrSet == [brcs |-> 0, brlo |-> 0, breq |-> 1, brmi |-> 2, brvs |-> 3, brlt |-> 4,
          brhs |-> 5, brts |-> 6, brie |-> 7]
BrClr == [brcc |-> 0, brsh |-> 0, brne |-> 1, brpl |-> 2, brvc |-> 3, brge |-> 4,
          brhc |-> 5, brtc |-> 6, brid |-> 7]
SeNames == [sec |-> 0, sez |-> 1, sen |-> 2, sev |-> 3, ses |-> 4, seh |-> 5, set |-> 6, sei |-> 7]
ClNames == [clc |-> 0, clz |-> 1, cln |-> 2, clv |-> 3, cls |-> 4, clh |-> 5, clt |-> 6, cli |-> 7]

In(f, x) == x \in DOMAIN f

Mnemonics ==
  DOMAIN RR \cup DOMAIN R1Dup \cup DOMAIN Imm \cup {"ser"} \cup DOMAIN IW \cup DOMAIN R1
  \cup {"muls"} \cup DOMAIN FMul \cup {"movw"} \cup DOMAIN Rel12 \cup DOMAIN Abs22
  \cup DOMAIN Fixed \cup {"brbs", "brbc"} \cup DOMAIN BrSet \cup DOMAIN BrClr
  \cup DOMAIN RB \cup DOMAIN IOB \cup DOMAIN SFlag \cup DOMAIN SeNames \cup DOMAIN ClNames
  \cup {"in", "out", "lds", "sts", "ld", "st", "ldd", "std", "lpm", "elpm"}

-----------------------------------------------------------------------------
(* Operand classes                                                         *)

IsReg(o)  == o.k = "r"
IsExp(o)  == o.k = "e"
IsIdx(o)  == o.k = "ix"
RegIn(o, S)      == IsReg(o) /\ o.n \in S
ExpIn(o, lo, hi) == IsExp(o) /\ o.huge = 0 /\ o.v >= lo /\ o.v <= hi

Regs    == 0..31
RegsHi  == 16..31
RegsMul == 16..23
RegsEven == {2 * i : i \in 0..15}
RegsW   == {24, 26, 28, 30}

\* index operand of the ld/ldd/st/std family
IdxFamily(o) ==
  /\ IsIdx(o)
  /\ \/ o.mode \in {"none", "inc", "dec"} /\ o.reg \in {"X", "Y", "Z"}
     \/ o.mode = "disp" /\ o.reg \in {"Y", "Z"} /\ o.huge = 0 /\ o.q >= 0 /\ o.q <= 63
IdxLpm(o) == IsIdx(o) /\ o.reg = "Z" /\ o.mode \in {"none", "inc"}

Rel(o, addr) == o.v - (addr + 1)

(* Operand classes.  Numeric classes have a closed range; register classes *)
(* a set of register numbers.  The tables are exported to the generators,  *)
(* which have no notion of a legal range of their own.                     *)
RegClass == [R |-> Regs, Rh |-> RegsHi, Rm |-> RegsMul, Re |-> RegsEven, Rw |-> RegsW]
NumClass == [K8 |-> <<-128, 255>>, K6 |-> <<0, 63>>, A6 |-> <<0, 63>>, A5 |-> <<0, 31>>,
             B3 |-> <<0, 7>>, A16 |-> <<0, 65535>>, A22 |-> <<0, 4194303>>, A7r |-> <<64, 191>>]
RelClass == [Rel7 |-> <<-64, 63>>, Rel12 |-> <<-2048, 2047>>]

ClassOK(c, o, addr) ==
  CASE c \in DOMAIN RegClass -> RegIn(o, RegClass[c])
    [] c \in DOMAIN NumClass -> ExpIn(o, NumClass[c][1], NumClass[c][2])
    [] c \in DOMAIN RelClass -> IsExp(o) /\ o.huge = 0
                                /\ Rel(o, addr) >= RelClass[c][1] /\ Rel(o, addr) <= RelClass[c][2]
    [] c = "IxF"   -> IdxFamily(o)
    [] c = "IxLpm" -> IdxLpm(o)
    [] c = "IxZinc" -> o.k = "ix" /\ o.reg = "Z" /\ o.mode = "inc"
    [] OTHER -> FALSE

(* Sigs(mn, core): the operand signatures the ISA defines for a mnemonic.  *)
Sigs(mn, core) ==
  CASE In(RR, mn)    -> { <<"R", "R">> }
    [] In(R1Dup, mn) -> { <<"R">> }
    [] In(Imm, mn)   -> { <<"Rh", "K8">> }
    [] mn = "ser"    -> { <<"Rh">> }
    [] In(IW, mn)    -> { <<"Rw", "K6">> }
    [] In(R1, mn)    -> { <<"R">> }
    [] mn = "muls"   -> { <<"Rh", "Rh">> }
    [] In(FMul, mn)  -> { <<"Rm", "Rm">> }
    [] mn = "movw"   -> { <<"Re", "Re">> }
    [] In(Rel12, mn) -> { <<"Rel12">> }
    [] In(Abs22, mn) -> { <<"A22">> }
    [] mn = "spm" -> { << >>, <<"IxZinc">> }                                     \* SPM and SPM Z+
    [] In(Fixed, mn) \/ In(SeNames, mn) \/ In(ClNames, mn) -> { << >> }
    [] mn \in {"brbs", "brbc"} -> { <<"B3", "Rel7">> }
    [] In(BrSet, mn) \/ In(BrClr, mn) -> { <<"Rel7">> }
    [] In(RB, mn)    -> { <<"R", "B3">> }
    [] In(IOB, mn)   -> { <<"A5", "B3">> }
    [] In(SFlag, mn) -> { <<"B3">> }
    [] mn = "in"     -> { <<"R", "A6">> }
    [] mn = "out"    -> { <<"A6", "R">> }
    [] mn = "lds"    -> IF core = "reduced" THEN { <<"Rh", "A7r">> } ELSE { <<"R", "A16">> }
    [] mn = "sts"    -> IF core = "reduced" THEN { <<"A7r", "Rh">> } ELSE { <<"A16", "R">> }
    [] mn \in {"ld", "ldd"} -> { <<"R", "IxF">> }
    [] mn \in {"st", "std"} -> { <<"IxF", "R">> }
    [] mn \in {"lpm", "elpm"} -> { << >>, <<"R", "IxLpm">> }
    [] OTHER -> {}

(* Legal(mn, ops, core, addr): the ISA can encode this instruction.        *)
Legal(mn, ops, core, addr) ==
  \E sig \in Sigs(mn, core) :
     /\ Len(sig) = Len(ops)
     /\ \A i \in 1..Len(sig) : ClassOK(sig[i], ops[i], addr)

(* Length in words; depends only on the mnemonic and the core.             *)
Len16(mn, core) ==
  IF In(Abs22, mn) THEN 2
  ELSE IF mn \in {"lds", "sts"} /\ core = "classic" THEN 2
  ELSE 1

-----------------------------------------------------------------------------
(* Encoding.  Only + * \div % are used; fields are placed by base + f*2^pos *)

Mod(a, m) == ((a % m) + m) % m          \* non-negative remainder for negative a too
K8(v) == Mod(v, 256)

EncRR(b, d, r)  == b + d * 16 + (r \div 16) * 512 + (r % 16)
EncImm(b, d, k) == b + (d - 16) * 16 + (k \div 16) * 256 + (k % 16)
\* index field of ld/st family (without the register and the load/store bit)
IdxBits(o) ==
  CASE o.mode = "none" /\ o.reg = "X" -> 4108    \* 100C
    [] o.mode = "inc"  /\ o.reg = "X" -> 4109    \* 100D
    [] o.mode = "dec"  /\ o.reg = "X" -> 4110    \* 100E
    [] o.mode = "none" /\ o.reg = "Y" -> 8       \* 0008 (= ldd Y+0)
    [] o.mode = "inc"  /\ o.reg = "Y" -> 4105    \* 1009
    [] o.mode = "dec"  /\ o.reg = "Y" -> 4106    \* 100A
    [] o.mode = "none" /\ o.reg = "Z" -> 0       \* 0000 (= ldd Z+0)
    [] o.mode = "inc"  /\ o.reg = "Z" -> 4097    \* 1001
    [] o.mode = "dec"  /\ o.reg = "Z" -> 4098    \* 1002
    [] o.mode = "disp" -> (IF o.reg = "Y" THEN 8 ELSE 0)
                          + (o.q \div 32) * 8192 + ((o.q \div 8) % 4) * 1024 + (o.q % 8)

(* Encode: defined for legal instructions only.                            *)
Encode(mn, ops, core, addr) ==
  CASE In(RR, mn)    -> << EncRR(RR[mn], ops[1].n, ops[2].n) >>
    [] In(R1Dup, mn) -> << EncRR(R1Dup[mn], ops[1].n, ops[1].n) >>
    [] In(Imm, mn)   -> << EncImm(Imm[mn], ops[1].n,
                                  IF mn = "cbr" THEN 255 - K8(ops[2].v) ELSE K8(ops[2].v)) >>
    [] mn = "ser"    -> << 61199 + (ops[1].n - 16) * 16 >>                       \* EF0F
    [] In(IW, mn)    -> << IW[mn] + ((ops[1].n - 24) \div 2) * 16
                           + (ops[2].v \div 16) * 64 + (ops[2].v % 16) >>
    [] In(R1, mn)    -> << R1[mn] + ops[1].n * 16 >>
    [] mn = "muls"   -> << 512 + (ops[1].n - 16) * 16 + (ops[2].n - 16) >>       \* 0200
    [] In(FMul, mn)  -> << FMul[mn] + (ops[1].n - 16) * 16 + (ops[2].n - 16) >>
    [] mn = "movw"   -> << 256 + (ops[1].n \div 2) * 16 + (ops[2].n \div 2) >>    \* 0100
    [] In(Rel12, mn) -> << Rel12[mn] + Mod(Rel(ops[1], addr), 4096) >>
    [] In(Abs22, mn) -> << Abs22[mn] + (ops[1].v \div 131072) * 16 + ((ops[1].v \div 65536) % 2),
                           ops[1].v % 65536 >>
    [] mn = "spm" /\ Len(ops) = 1 -> << 38392 >>                                  \* 95F8
    [] In(Fixed, mn) -> << Fixed[mn] >>
    [] In(SeNames, mn) -> << SFlag["bset"] + SeNames[mn] * 16 >>
    [] In(ClNames, mn) -> << SFlag["bclr"] + ClNames[mn] * 16 >>
    [] mn = "brbs"   -> << 61440 + Mod(Rel(ops[2], addr), 128) * 8 + ops[1].v >>  \* F000
    [] mn = "brbc"   -> << 62464 + Mod(Rel(ops[2], addr), 128) * 8 + ops[1].v >>  \* F400
    [] In(BrSet, mn) -> << 61440 + Mod(Rel(ops[1], addr), 128) * 8 + BrSet[mn] >>
    [] In(BrClr, mn) -> << 62464 + Mod(Rel(ops[1], addr), 128) * 8 + BrClr[mn] >>
    [] In(RB, mn)    -> << RB[mn] + ops[1].n * 16 + ops[2].v >>
    [] In(IOB, mn)   -> << IOB[mn] + ops[1].v * 8 + ops[2].v >>
    [] In(SFlag, mn) -> << SFlag[mn] + ops[1].v * 16 >>
    [] mn = "in"     -> << 45056 + ops[1].n * 16 + (ops[2].v \div 16) * 512 + (ops[2].v % 16) >>  \* B000
    [] mn = "out"    -> << 47104 + ops[2].n * 16 + (ops[1].v \div 16) * 512 + (ops[1].v % 16) >>  \* B800
    [] mn \in {"lds", "sts"} ->
         LET r == IF mn = "lds" THEN ops[1].n ELSE ops[2].n
             k == IF mn = "lds" THEN ops[2].v ELSE ops[1].v
         IN IF core = "reduced"
            \* 1010 0kkk dddd kkkk / 1010 1kkk dddd kkkk ; k[7] = NOT k[8-bit address bit 7] is implied:
            \* the 7 encoded bits are a6 a5 a4 (bits 10..8 as k[6] k[5] k[4]... per manual:
            \* ADDR[7:0] = (NOT INST[8], INST[8], INST[10], INST[9], INST[3], INST[2], INST[1], INST[0])
            THEN << (IF mn = "lds" THEN 40960 ELSE 43008) + (r - 16) * 16
                    + ((k \div 64) % 2) * 256 + ((k \div 16) % 4) * 512 + (k % 16) >>
            ELSE << (IF mn = "lds" THEN 36864 ELSE 37376) + r * 16, k >>      \* 9000 / 9200
    [] mn \in {"ld", "ldd"}  -> << 32768 + ops[1].n * 16 + IdxBits(ops[2]) >>      \* 8000
    [] mn \in {"st", "std"}  -> << 33280 + ops[2].n * 16 + IdxBits(ops[1]) >>      \* 8200
    [] mn \in {"lpm", "elpm"} ->
         IF Len(ops) = 0 THEN << IF mn = "lpm" THEN 38344 ELSE 38360 >>        \* 95C8 95D8
         ELSE << 36864 + ops[1].n * 16
                 + (IF mn = "lpm" THEN 4 ELSE 6) + (IF ops[2].mode = "inc" THEN 1 ELSE 0) >>

(* What the assembler must do with an instruction: its words, or an error. *)
EncodeResult(mn, ops, core, addr) ==
  IF mn \in Mnemonics /\ Legal(mn, ops, core, addr)
  THEN [ok |-> TRUE, w |-> Encode(mn, ops, core, addr)]
  ELSE [ok |-> FALSE, w |-> << >>]

-----------------------------------------------------------------------------
(* Independent decoder: mask/value rows, most specific first.              *)
(* Field extractors work on the first word w (and w2 for two-word forms).  *)

Bits(w, pos, n) == (w \div (2 ^ pos)) % (2 ^ n)
SExt(v, n) == IF v >= 2 ^ (n - 1) THEN v - 2 ^ n ELSE v

D5(w)  == Bits(w, 4, 5)                         \* dddd d at 8..4
R5(w)  == Bits(w, 9, 1) * 16 + Bits(w, 0, 4)    \* r at 9, 3..0
K8f(w) == Bits(w, 8, 4) * 16 + Bits(w, 0, 4)
Q6(w)  == Bits(w, 13, 1) * 32 + Bits(w, 10, 2) * 8 + Bits(w, 0, 3)
A6f(w) == Bits(w, 9, 2) * 16 + Bits(w, 0, 4)

\* rows: [m |-> mask, v |-> value, id |-> tag]
DecRows == <<
  [m |-> 65535, v |-> 0,     id |-> "nop"],
  [m |-> 65535, v |-> 37897, id |-> "ijmp"],  [m |-> 65535, v |-> 37913, id |-> "eijmp"],
  [m |-> 65535, v |-> 38153, id |-> "icall"], [m |-> 65535, v |-> 38169, id |-> "eicall"],
  [m |-> 65535, v |-> 38152, id |-> "ret"],   [m |-> 65535, v |-> 38168, id |-> "reti"],
  [m |-> 65535, v |-> 38280, id |-> "sleep"], [m |-> 65535, v |-> 38296, id |-> "break"],
  [m |-> 65535, v |-> 38312, id |-> "wdr"],   [m |-> 65535, v |-> 38344, id |-> "lpm0"],
  [m |-> 65535, v |-> 38360, id |-> "elpm0"], [m |-> 65535, v |-> 38376, id |-> "spm"],
  [m |-> 65535, v |-> 38392, id |-> "spmZ+"],
  [m |-> 65423, v |-> 37896, id |-> "bset"],  \* FF8F 9408
  [m |-> 65423, v |-> 38024, id |-> "bclr"],  \* FF8F 9488
  [m |-> 65038, v |-> 37900, id |-> "jmp"],   \* FE0E 940C
  [m |-> 65038, v |-> 37902, id |-> "call"],  \* FE0E 940E
  [m |-> 65039, v |-> 37888, id |-> "com"],   [m |-> 65039, v |-> 37889, id |-> "neg"],
  [m |-> 65039, v |-> 37890, id |-> "swap"],  [m |-> 65039, v |-> 37891, id |-> "inc"],
  [m |-> 65039, v |-> 37893, id |-> "asr"],   [m |-> 65039, v |-> 37894, id |-> "lsr"],
  [m |-> 65039, v |-> 37895, id |-> "ror"],   [m |-> 65039, v |-> 37898, id |-> "dec"],
  [m |-> 65039, v |-> 36864, id |-> "lds32"], [m |-> 65039, v |-> 37376, id |-> "sts32"],
  [m |-> 65039, v |-> 36868, id |-> "lpmZ"],  [m |-> 65039, v |-> 36869, id |-> "lpmZ+"],
  [m |-> 65039, v |-> 36870, id |-> "elpmZ"], [m |-> 65039, v |-> 36871, id |-> "elpmZ+"],
  [m |-> 65039, v |-> 36879, id |-> "pop"],   [m |-> 65039, v |-> 37391, id |-> "push"],
  [m |-> 65039, v |-> 36876, id |-> "ldX"],   [m |-> 65039, v |-> 36877, id |-> "ldX+"],
  [m |-> 65039, v |-> 36878, id |-> "ld-X"],  [m |-> 65039, v |-> 36873, id |-> "ldY+"],
  [m |-> 65039, v |-> 36874, id |-> "ld-Y"],  [m |-> 65039, v |-> 36865, id |-> "ldZ+"],
  [m |-> 65039, v |-> 36866, id |-> "ld-Z"],
  [m |-> 65039, v |-> 37388, id |-> "stX"],   [m |-> 65039, v |-> 37389, id |-> "stX+"],
  [m |-> 65039, v |-> 37390, id |-> "st-X"],  [m |-> 65039, v |-> 37385, id |-> "stY+"],
  [m |-> 65039, v |-> 37386, id |-> "st-Y"],  [m |-> 65039, v |-> 37377, id |-> "stZ+"],
  [m |-> 65039, v |-> 37378, id |-> "st-Z"],
  [m |-> 65280, v |-> 38400, id |-> "adiw"],  [m |-> 65280, v |-> 38656, id |-> "sbiw"],
  [m |-> 65280, v |-> 38912, id |-> "cbi"],   [m |-> 65280, v |-> 39168, id |-> "sbic"],
  [m |-> 65280, v |-> 39424, id |-> "sbi"],   [m |-> 65280, v |-> 39680, id |-> "sbis"],
  [m |-> 65280, v |-> 256,   id |-> "movw"],  [m |-> 65280, v |-> 512,   id |-> "muls"],
  [m |-> 65416, v |-> 768,   id |-> "mulsu"], [m |-> 65416, v |-> 776,   id |-> "fmul"],
  [m |-> 65416, v |-> 896,   id |-> "fmuls"], [m |-> 65416, v |-> 904,   id |-> "fmulsu"],
  [m |-> 64512, v |-> 39936, id |-> "mul"],
  [m |-> 64512, v |-> 1024,  id |-> "cpc"],   [m |-> 64512, v |-> 2048,  id |-> "sbc"],
  [m |-> 64512, v |-> 3072,  id |-> "add"],   [m |-> 64512, v |-> 4096,  id |-> "cpse"],
  [m |-> 64512, v |-> 5120,  id |-> "cp"],    [m |-> 64512, v |-> 6144,  id |-> "sub"],
  [m |-> 64512, v |-> 7168,  id |-> "adc"],   [m |-> 64512, v |-> 8192,  id |-> "and"],
  [m |-> 64512, v |-> 9216,  id |-> "eor"],   [m |-> 64512, v |-> 10240, id |-> "or"],
  [m |-> 64512, v |-> 11264, id |-> "mov"],
  [m |-> 61440, v |-> 12288, id |-> "cpi"],   [m |-> 61440, v |-> 16384, id |-> "sbci"],
  [m |-> 61440, v |-> 20480, id |-> "subi"],  [m |-> 61440, v |-> 24576, id |-> "ori"],
  [m |-> 61440, v |-> 28672, id |-> "andi"],  [m |-> 61440, v |-> 57344, id |-> "ldi"],
  [m |-> 61440, v |-> 49152, id |-> "rjmp"],  [m |-> 61440, v |-> 53248, id |-> "rcall"],
  [m |-> 63488, v |-> 45056, id |-> "in"],    [m |-> 63488, v |-> 47104, id |-> "out"],
  [m |-> 64512, v |-> 61440, id |-> "brbs"],  [m |-> 64512, v |-> 62464, id |-> "brbc"],
  [m |-> 65032, v |-> 63488, id |-> "bld"],   [m |-> 65032, v |-> 64000, id |-> "bst"],  \* FE08
  [m |-> 65032, v |-> 64512, id |-> "sbrc"],  [m |-> 65032, v |-> 65024, id |-> "sbrs"],
  [m |-> 53760, v |-> 32768, id |-> "ldd"],   [m |-> 53760, v |-> 33280, id |-> "std"]   \* D200 8000/8200
>>
\* On the reduced core 1010 xxxx xxxx xxxx is the 16-bit lds/sts and ldd/std do not exist.
DecRowsReduced == << [m |-> 63488, v |-> 40960, id |-> "lds16"], [m |-> 63488, v |-> 43008, id |-> "sts16"] >>

RECURSIVE FirstMatch(_, _, _)
FirstMatch(rows, i, w) ==
  IF i > Len(rows) THEN "none"
  ELSE IF (w & rows[i].m) = rows[i].v THEN rows[i].id
  ELSE FirstMatch(rows, i + 1, w)

RowId(w, core) ==
  IF core = "reduced" /\ FirstMatch(DecRowsReduced, 1, w) # "none"
  THEN FirstMatch(DecRowsReduced, 1, w)
  ELSE FirstMatch(DecRows, 1, w)

NeedsSecondWord(id) == id \in {"jmp", "call", "lds32", "sts32"}

(* Decode(ws, core, addr): canonical [mn, ops] of the instruction at addr. *)
Decode(ws, core, addr) ==
  LET w  == ws[1]
      id == RowId(w, core)
      w2 == IF Len(ws) >= 2 THEN ws[2] ELSE 0
      ldst(mn, reg, mode) == IF mn = "ld" THEN [mn |-> "ld", ops |-> <<R(D5(w)), Ix(reg, mode, 0)>>]
                                           ELSE [mn |-> "st", ops |-> <<Ix(reg, mode, 0), R(D5(w))>>]
  IN
  CASE id \in {"nop", "ijmp", "eijmp", "icall", "eicall", "ret", "reti", "sleep", "break", "wdr", "spm"}
            -> [mn |-> id, ops |-> << >>]
    [] id = "spmZ+" -> [mn |-> "spm", ops |-> <<Ix("Z", "inc", 0)>>]
    [] id = "lpm0"  -> [mn |-> "lpm", ops |-> << >>]
    [] id = "elpm0" -> [mn |-> "elpm", ops |-> << >>]
    [] id \in {"bset", "bclr"} -> [mn |-> id, ops |-> <<E(Bits(w, 4, 3))>>]
    [] id \in {"jmp", "call"}  -> [mn |-> id, ops |-> <<E((Bits(w, 4, 5) * 2 + Bits(w, 0, 1)) * 65536 + w2)>>]
    [] id \in {"com", "neg", "swap", "inc", "asr", "lsr", "ror", "dec", "pop", "push"}
            -> [mn |-> id, ops |-> <<R(D5(w))>>]
    [] id = "lds32" -> [mn |-> "lds", ops |-> <<R(D5(w)), E(w2)>>]
    [] id = "sts32" -> [mn |-> "sts", ops |-> <<E(w2), R(D5(w))>>]
    [] id = "lpmZ"   -> [mn |-> "lpm",  ops |-> <<R(D5(w)), Ix("Z", "none", 0)>>]
    [] id = "lpmZ+"  -> [mn |-> "lpm",  ops |-> <<R(D5(w)), Ix("Z", "inc", 0)>>]
    [] id = "elpmZ"  -> [mn |-> "elpm", ops |-> <<R(D5(w)), Ix("Z", "none", 0)>>]
    [] id = "elpmZ+" -> [mn |-> "elpm", ops |-> <<R(D5(w)), Ix("Z", "inc", 0)>>]
    [] id = "ldX"  -> ldst("ld", "X", "none") [] id = "ldX+" -> ldst("ld", "X", "inc")
    [] id = "ld-X" -> ldst("ld", "X", "dec")  [] id = "ldY+" -> ldst("ld", "Y", "inc")
    [] id = "ld-Y" -> ldst("ld", "Y", "dec")  [] id = "ldZ+" -> ldst("ld", "Z", "inc")
    [] id = "ld-Z" -> ldst("ld", "Z", "dec")
    [] id = "stX"  -> ldst("st", "X", "none") [] id = "stX+" -> ldst("st", "X", "inc")
    [] id = "st-X" -> ldst("st", "X", "dec")  [] id = "stY+" -> ldst("st", "Y", "inc")
    [] id = "st-Y" -> ldst("st", "Y", "dec")  [] id = "stZ+" -> ldst("st", "Z", "inc")
    [] id = "st-Z" -> ldst("st", "Z", "dec")
    [] id \in {"adiw", "sbiw"} -> [mn |-> id, ops |-> <<R(24 + 2 * Bits(w, 4, 2)), E(Bits(w, 6, 2) * 16 + Bits(w, 0, 4))>>]
    [] id \in {"cbi", "sbic", "sbi", "sbis"} -> [mn |-> id, ops |-> <<E(Bits(w, 3, 5)), E(Bits(w, 0, 3))>>]
    [] id = "movw" -> [mn |-> id, ops |-> <<R(2 * Bits(w, 4, 4)), R(2 * Bits(w, 0, 4))>>]
    [] id = "muls" -> [mn |-> id, ops |-> <<R(16 + Bits(w, 4, 4)), R(16 + Bits(w, 0, 4))>>]
    [] id \in {"mulsu", "fmul", "fmuls", "fmulsu"} -> [mn |-> id, ops |-> <<R(16 + Bits(w, 4, 3)), R(16 + Bits(w, 0, 3))>>]
    [] id \in {"mul", "cpc", "sbc", "add", "cpse", "cp", "sub", "adc", "and", "eor", "or", "mov"}
            -> [mn |-> id, ops |-> <<R(D5(w)), R(R5(w))>>]
    [] id \in {"cpi", "sbci", "subi", "ori", "andi", "ldi"} -> [mn |-> id, ops |-> <<R(16 + Bits(w, 4, 4)), E(K8f(w))>>]
    [] id \in {"rjmp", "rcall"} -> [mn |-> id, ops |-> <<E(addr + 1 + SExt(Bits(w, 0, 12), 12))>>]
    [] id = "in"  -> [mn |-> id, ops |-> <<R(D5(w)), E(A6f(w))>>]
    [] id = "out" -> [mn |-> id, ops |-> <<E(A6f(w)), R(D5(w))>>]
    [] id \in {"brbs", "brbc"} -> [mn |-> id, ops |-> <<E(Bits(w, 0, 3)), E(addr + 1 + SExt(Bits(w, 3, 7), 7))>>]
    [] id \in {"bld", "bst", "sbrc", "sbrs"} -> [mn |-> id, ops |-> <<R(D5(w)), E(Bits(w, 0, 3))>>]
    [] id = "ldd" -> [mn |-> "ld", ops |-> <<R(D5(w)), Ix(IF Bits(w, 3, 1) = 1 THEN "Y" ELSE "Z", "disp", Q6(w))>>]
    [] id = "std" -> [mn |-> "st", ops |-> <<Ix(IF Bits(w, 3, 1) = 1 THEN "Y" ELSE "Z", "disp", Q6(w)), R(D5(w))>>]
    [] id \in {"lds16", "sts16"} ->
         LET k7 == Bits(w, 8, 1) * 64 + Bits(w, 9, 2) * 16 + Bits(w, 0, 4)     \* a6 a5a4 a3..a0
             a  == k7 + (1 - Bits(w, 8, 1)) * 128                                  \* a7 = NOT a6
             r  == R(16 + Bits(w, 4, 4))
         IN IF id = "lds16" THEN [mn |-> "lds", ops |-> <<r, E(a)>>] ELSE [mn |-> "sts", ops |-> <<E(a), r>>]
    [] OTHER -> [mn |-> "?", ops |-> << >>]

(* Canon: the documented alias map — what a decoder is entitled to print   *)
(* for a legal written instruction.                                        *)
CanonIx(o) == IF o.mode = "none" /\ o.reg \in {"Y", "Z"} THEN Ix(o.reg, "disp", 0)
              ELSE IF o.mode = "disp" THEN Ix(o.reg, "disp", o.q) ELSE Ix(o.reg, o.mode, 0)
Canon(mn, ops, core, addr) ==
  CASE mn = "tst" -> [mn |-> "and", ops |-> <<ops[1], ops[1]>>]
    [] mn = "clr" -> [mn |-> "eor", ops |-> <<ops[1], ops[1]>>]
    [] mn = "lsl" -> [mn |-> "add", ops |-> <<ops[1], ops[1]>>]
    [] mn = "rol" -> [mn |-> "adc", ops |-> <<ops[1], ops[1]>>]
    [] mn = "ser" -> [mn |-> "ldi", ops |-> <<ops[1], E(255)>>]
    [] mn = "sbr" -> [mn |-> "ori", ops |-> <<ops[1], E(K8(ops[2].v))>>]
    [] mn = "cbr" -> [mn |-> "andi", ops |-> <<ops[1], E(255 - K8(ops[2].v))>>]
    [] In(Imm, mn) -> [mn |-> mn, ops |-> <<ops[1], E(K8(ops[2].v))>>]
    [] In(SeNames, mn) -> [mn |-> "bset", ops |-> <<E(SeNames[mn])>>]
    [] In(ClNames, mn) -> [mn |-> "bclr", ops |-> <<E(ClNames[mn])>>]
    [] In(BrSet, mn) -> [mn |-> "brbs", ops |-> <<E(BrSet[mn]), E(ops[1].v)>>]
    [] In(BrClr, mn) -> [mn |-> "brbc", ops |-> <<E(BrClr[mn]), E(ops[1].v)>>]
    [] mn \in {"ld", "ldd"} -> [mn |-> "ld", ops |-> <<ops[1], CanonIx(ops[2])>>]
    [] mn \in {"st", "std"} -> [mn |-> "st", ops |-> <<CanonIx(ops[1]), ops[2]>>]
    [] mn \in {"lpm", "elpm"} /\ Len(ops) = 2 -> [mn |-> mn, ops |-> <<ops[1], Ix("Z", ops[2].mode, 0)>>]
    [] mn = "spm" /\ Len(ops) = 1 -> [mn |-> "spm", ops |-> <<Ix("Z", "inc", 0)>>]
    [] OTHER -> [mn |-> mn, ops |-> [i \in 1..Len(ops) |->
                     IF ops[i].k = "e" THEN E(ops[i].v) ELSE ops[i]]]
=============================================================================
