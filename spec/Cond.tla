-------------------------------- MODULE Cond --------------------------------
(***************************************************************************)
(* The conditional stack, on its own: one frame per open .if/.ifdef/       *)
(* .ifndef construct.  Used by Assembler.tla (the reader), by              *)
(* Trace_Pipeline.tla (the judge of the reader's line events) and checked  *)
(* for programs of any length by MC_CondMachine.tla.                       *)
(*                                                                         *)
(*   active  the lines of the current branch are assembled (given that the *)
(*           enclosing branches are)                                       *)
(*   taken   a branch of this construct was selected already, or the       *)
(*           construct stands in an unselected branch: no later condition  *)
(*           of the chain is evaluated                                     *)
(*   else    the .else of the construct was seen                           *)
(***************************************************************************)
EXTENDS Naturals, Sequences

Frame(b) == [active |-> b, taken |-> b, else |-> FALSE]
DeadFrame == [active |-> FALSE, taken |-> TRUE, else |-> FALSE]     \* a construct inside an unselected branch
AllActive(c)    == \A i \in 1..Len(c) : c[i].active
ParentActive(c) == \A i \in 1..(Len(c) - 1) : c[i].active
Top(c) == c[Len(c)]
SetTop(c, f) == [c EXCEPT ![Len(c)] = f]
Pop(c) == SubSeq(c, 1, Len(c) - 1)

\* .if / .ifdef / .ifndef whose condition has the value b; the condition is looked at only where the line is selected
OpenEvaluates(c) == AllActive(c)
Open(c, b) == Append(c, IF AllActive(c) THEN Frame(b) ELSE DeadFrame)

\* .elif: well-formed after .if/.elif of an open construct; evaluated only if it is its turn
ElifOk(c) == c # << >> /\ ~Top(c).else
ElifEvaluates(c) == ParentActive(c) /\ ~Top(c).taken
Elif(c, b) == IF ElifEvaluates(c) THEN SetTop(c, [Top(c) EXCEPT !.active = b, !.taken = b])
              ELSE SetTop(c, [Top(c) EXCEPT !.active = FALSE])

ElseOk(c) == c # << >> /\ ~Top(c).else
Else(c) == SetTop(c, [active |-> ParentActive(c) /\ ~Top(c).taken, taken |-> TRUE, else |-> TRUE])

EndifOk(c) == c # << >>
Endif(c) == Pop(c)
=============================================================================
