-------------------------------- MODULE I64 --------------------------------
(***************************************************************************)
(* Exact integers for the expression semantics.  TLC's integers are 32-bit *)
(* so values are  [neg |-> BOOLEAN, mag |-> little-endian base-256 limbs]  *)
(* (normalised: no high zero limbs, zero is not negative).  On top of the  *)
(* exact arithmetic: the 64-bit two's-complement view used by the bitwise  *)
(* operators, the shifts, the byte/word functions and the data directives. *)
(***************************************************************************)
EXTENDS Integers, Sequences, Bitwise

Limb(m, i) == IF i <= Len(m) THEN m[i] ELSE 0

RECURSIVE Trim(_)
Trim(m) == IF m = << >> THEN m
           ELSE IF m[Len(m)] = 0 THEN Trim(SubSeq(m, 1, Len(m) - 1)) ELSE m

Zeros(n) == [i \in 1..n |-> 0]
Pad(m, n) == IF Len(m) >= n THEN m ELSE m \o Zeros(n - Len(m))

RECURSIVE NatMag(_)
NatMag(n) == IF n = 0 THEN << >> ELSE <<n % 256>> \o NatMag(n \div 256)

Big(neg, mag) == LET t == Trim(mag) IN [neg |-> neg /\ t # << >>, mag |-> t]
Zero == [neg |-> FALSE, mag |-> << >>]
One  == [neg |-> FALSE, mag |-> <<1>>]
FromInt(n) == IF n >= 0 THEN Big(FALSE, NatMag(n)) ELSE Big(TRUE, NatMag(-n))   \* |n| < 2^31

RECURSIVE MagInt(_, _)
MagInt(m, i) == IF i > Len(m) THEN 0 ELSE m[i] + 256 * MagInt(m, i + 1)
Small(x) == Len(x.mag) <= 3                                   \* |x| < 2^24
ToInt(x) == IF x.neg THEN -MagInt(x.mag, 1) ELSE MagInt(x.mag, 1)   \* requires Len(mag) <= 3 (or 4 with top < 128)

-----------------------------------------------------------------------------
(* magnitudes                                                              *)

RECURSIVE CmpFrom(_, _, _)
CmpFrom(a, b, i) == IF i = 0 THEN 0
                    ELSE IF a[i] < b[i] THEN -1 ELSE IF a[i] > b[i] THEN 1 ELSE CmpFrom(a, b, i - 1)
CmpMag(a, b) == IF Len(a) < Len(b) THEN -1 ELSE IF Len(a) > Len(b) THEN 1 ELSE CmpFrom(a, b, Len(a))   \* trimmed

RECURSIVE AddR(_, _, _, _)
AddR(a, b, i, c) == IF i > Len(a) /\ i > Len(b) THEN (IF c = 0 THEN << >> ELSE <<c>>)
                    ELSE LET s == Limb(a, i) + Limb(b, i) + c IN <<s % 256>> \o AddR(a, b, i + 1, s \div 256)
AddMag(a, b) == AddR(a, b, 1, 0)

RECURSIVE SubR(_, _, _, _)
SubR(a, b, i, br) == IF i > Len(a) THEN << >>
                     ELSE LET d == a[i] - Limb(b, i) - br IN
                          IF d < 0 THEN <<d + 256>> \o SubR(a, b, i + 1, 1) ELSE <<d>> \o SubR(a, b, i + 1, 0)
SubMag(a, b) == Trim(SubR(a, b, 1, 0))                        \* requires a >= b

RECURSIVE MulSmallR(_, _, _, _)
MulSmallR(a, d, i, c) == IF i > Len(a) THEN NatMag(c)
                         ELSE LET p == a[i] * d + c IN <<p % 256>> \o MulSmallR(a, d, i + 1, p \div 256)
MulSmall(a, d) == Trim(MulSmallR(a, d, 1, 0))                 \* d < 2^22

RECURSIVE MulR(_, _, _)
MulR(a, b, i) == IF i > Len(b) THEN << >>
                 ELSE AddMag(Zeros(i - 1) \o MulSmall(a, b[i]), MulR(a, b, i + 1))
MulMag(a, b) == Trim(MulR(a, b, 1))

RECURSIVE QDigit(_, _, _, _)
QDigit(r, b, lo, hi) == IF lo = hi THEN lo
                        ELSE LET mid == (lo + hi + 1) \div 2 IN
                             IF CmpMag(MulSmall(b, mid), r) <= 0 THEN QDigit(r, b, mid, hi) ELSE QDigit(r, b, lo, mid - 1)
RECURSIVE DivR(_, _, _, _, _)
DivR(a, b, i, r, q) == IF i = 0 THEN [q |-> Trim(q), r |-> r]
                       ELSE LET r1 == Trim(<<a[i]>> \o r)
                                d  == QDigit(r1, b, 0, 255)
                            IN DivR(a, b, i - 1, SubMag(r1, MulSmall(b, d)), <<d>> \o q)
DivModMag(a, b) == DivR(a, b, Len(a), << >>, << >>)           \* b # 0

-----------------------------------------------------------------------------
(* signed exact arithmetic                                                 *)

Neg(x) == Big(~x.neg, x.mag)
Add(x, y) ==
  IF x.neg = y.neg THEN Big(x.neg, AddMag(x.mag, y.mag))
  ELSE LET c == CmpMag(x.mag, y.mag) IN
       IF c = 0 THEN Zero
       ELSE IF c > 0 THEN Big(x.neg, SubMag(x.mag, y.mag)) ELSE Big(y.neg, SubMag(y.mag, x.mag))
Sub(x, y) == Add(x, Neg(y))
Mul(x, y) == Big(x.neg # y.neg, MulMag(x.mag, y.mag))
IsZero(x) == x.mag = << >>
\* truncated division: quotient rounds toward zero, remainder has the sign of the dividend
DivT(x, y) == Big(x.neg # y.neg, DivModMag(x.mag, y.mag).q)
RemT(x, y) == Big(x.neg, DivModMag(x.mag, y.mag).r)
Cmp(x, y) ==
  IF x.neg # y.neg THEN (IF x.neg THEN -1 ELSE 1)
  ELSE IF x.neg THEN CmpMag(y.mag, x.mag) ELSE CmpMag(x.mag, y.mag)
Lt(x, y) == Cmp(x, y) < 0
Le(x, y) == Cmp(x, y) <= 0
Eq(x, y) == x = y

RECURSIVE Pow2Mag(_)
Pow2Mag(n) == IF n >= 8 THEN <<0>> \o Pow2Mag(n - 8) ELSE <<2 ^ n>>
Pow2(n) == Big(FALSE, Pow2Mag(n))
MinI64 == Big(TRUE, Pow2Mag(63))
MaxI64 == Sub(Pow2(63), One)
InI64(x) == Le(MinI64, x) /\ Le(x, MaxI64)
\* -2^(8w-1) <= x <= 2^(8w)-1 : fits a w-byte element, signed or unsigned reading
FitsWidth(x, w) == Le(Big(TRUE, Pow2Mag(8 * w - 1)), x) /\ Lt(x, Pow2(8 * w))

-----------------------------------------------------------------------------
(* two's-complement views                                                  *)

\* the low n bytes of x's two's-complement pattern; requires |x| <= 2^(8n)
Bytes(x, n) == IF x.neg THEN Pad(SubMag(Pow2Mag(8 * n), x.mag), n) ELSE SubSeq(Pad(x.mag, n), 1, n)
Bytes8(x) == Bytes(x, 8)
FromBytes8(b) == IF b[8] >= 128 THEN Big(TRUE, SubMag(Pow2Mag(64), Trim(b))) ELSE Big(FALSE, b)
FromUBytes(b) == Big(FALSE, b)

And64(x, y) == FromBytes8([i \in 1..8 |-> Bytes8(x)[i] & Bytes8(y)[i]])
Or64(x, y)  == FromBytes8([i \in 1..8 |-> Bytes8(x)[i] | Bytes8(y)[i]])
Xor64(x, y) == FromBytes8([i \in 1..8 |-> Bytes8(x)[i] ^^ Bytes8(y)[i]])
Not64(x)    == FromBytes8([i \in 1..8 |-> 255 - Bytes8(x)[i]])
\* shifts of the 64-bit pattern, 0 <= n <= 63
Shl64(x, n) == FromBytes8(SubSeq(Pad(MulMag(Trim(Bytes8(x)), Pow2Mag(n)), 8), 1, 8))
ShrU64(x, n) == Big(FALSE, DivModMag(x.mag, Pow2Mag(n)).q)      \* for x >= 0
\* bytes lo..hi (1-based) of the pattern as a non-negative number
Field(x, lo, hi) == Big(FALSE, SubSeq(Bytes8(x), lo, hi))
=============================================================================
