--------------------------- MODULE MC_CondMachine ---------------------------
(***************************************************************************)
(* The conditional stack of Cond.tla as a machine of its own: every step   *)
(* is the next line of SOME program (the conditions' values are chosen     *)
(* freely), so the reachable states are those of all programs of every     *)
(* length whose nesting stays within MaxDepth.  Next to the stack a        *)
(* history is kept that says, in the property's words and without looking  *)
(* at the stack, which branch of every open construct is the chosen one:   *)
(* "the first branch whose condition holds, or .else when none does".      *)
(*                                                                         *)
(*  Agree      a line is assembled (AllActive) iff every enclosing         *)
(*             construct currently stands in its chosen branch             *)
(*  NoPeek     a condition that is not evaluated cannot influence anything *)
(*  AtMostOne  no construct ever has a second branch assembled             *)
(*  and the judge of the reader's line events (Trace_Pipeline!ReaderStep)  *)
(*  JudgeComplete  accepts the event the reference reader produces for the *)
(*                 next line, and follows its stack                        *)
(*  JudgeSound     rejects the same line reported the other way round      *)
(*                 (handed on <-> passed over) and a decisive condition    *)
(*                 reported with the other outcome                         *)
(***************************************************************************)
EXTENDS Cond, Integers, TLC
CONSTANTS MaxDepth,
          Broken       \* TRUE: the reader the implementation used to have (no taken flag) -- must violate Agree

VARIABLES c,        \* the stack
          h,        \* history per open construct: [held, cur, els, n]
          last      \* the line just read: [k, b]
vars == <<c, h, last>>

\* cur: the construct stands in its chosen branch; held: a condition of the chain held already; n: branches assembled so far
Chosen(hh) == \A i \in 1..Len(hh) : hh[i].cur
Hist(b, sel) == [held |-> b, cur |-> b, els |-> FALSE, n |-> IF b /\ sel THEN 1 ELSE 0]

Init == c = << >> /\ h = << >> /\ last = [k |-> "none", b |-> FALSE]

Lines == {"if", "elif", "else", "endif", "other"}
Enabled(k) == CASE k = "if" -> Len(c) < MaxDepth
                [] k = "elif" -> ElifOk(c)
                [] k = "else" -> ElseOk(c)
                [] k = "endif" -> EndifOk(c)
                [] OTHER -> TRUE
BrokenElif(b) == IF ParentActive(c) /\ Top(c).active THEN SetTop(c, [Top(c) EXCEPT !.active = b]) ELSE Elif(c, b)
NextC(k, b) == CASE k = "if" -> Open(c, b) [] k = "elif" -> (IF Broken THEN BrokenElif(b) ELSE Elif(c, b)) [] k = "else" -> Else(c)
                 [] k = "endif" -> Endif(c) [] OTHER -> c
NextH(k, b) ==
  LET n == Len(h) IN
  CASE k = "if"    -> Append(h, Hist(b, Chosen(h)))
    [] k = "elif"  -> LET now == ~h[n].held /\ b IN
                      [h EXCEPT ![n] = [held |-> h[n].held \/ b, cur |-> now, els |-> FALSE,
                                        n |-> h[n].n + (IF now /\ Chosen(SubSeq(h, 1, n - 1)) THEN 1 ELSE 0)]]
    [] k = "else"  -> LET now == ~h[n].held IN
                      [h EXCEPT ![n] = [held |-> TRUE, cur |-> now, els |-> TRUE,
                                        n |-> h[n].n + (IF now /\ Chosen(SubSeq(h, 1, n - 1)) THEN 1 ELSE 0)]]
    [] k = "endif" -> SubSeq(h, 1, n - 1)
    [] OTHER -> h
Step(k, b) == Enabled(k) /\ c' = NextC(k, b) /\ h' = NextH(k, b) /\ last' = [k |-> k, b |-> b]
Next == \E k \in Lines, b \in BOOLEAN : Step(k, b)
Spec == Init /\ [][Next]_vars

-----------------------------------------------------------------------------
Agree == /\ Len(c) = Len(h)
         /\ AllActive(c) = Chosen(h)
         /\ \A i \in 1..Len(c) : c[i].else = h[i].els
AtMostOne == \A i \in 1..Len(h) : h[i].n <= 1
NoPeek == /\ ~OpenEvaluates(c) => Open(c, TRUE) = Open(c, FALSE)
          /\ ElifOk(c) /\ ~ElifEvaluates(c) => Elif(c, TRUE) = Elif(c, FALSE)
\* the condition of a line that IS evaluated decides whether the following lines are assembled
Decides == /\ OpenEvaluates(c) => AllActive(Open(c, TRUE)) /\ ~AllActive(Open(c, FALSE))
           /\ ElifOk(c) /\ ElifEvaluates(c) => AllActive(Elif(c, TRUE)) /\ ~AllActive(Elif(c, FALSE))

-----------------------------------------------------------------------------
(* The reader's line events and their judge.  The reference reader hands a *)
(* line to the assembler when all enclosing branches are selected; a       *)
(* conditional directive also when it is its turn to be looked at.         *)
Tp == INSTANCE ReaderJudge
Ev(ev, cls, taken) == [ev |-> ev, ln |-> 0, cls |-> cls, taken |-> taken]
T(b) == IF b THEN 1 ELSE 0
\* what the implementation's reader reports for the next line (k, b) in stack c
RefEvent(k, b) ==
  CASE k = "if"    -> IF AllActive(c) THEN Ev("rline", "if", T(b)) ELSE Ev("sline", "if", -1)
    [] k = "elif"  -> IF ElifEvaluates(c) THEN Ev("rline", "elif", T(b))
                      ELSE IF AllActive(c) THEN Ev("rline", "elif", -1)      \* met while assembling: handed on, not evaluated
                      ELSE Ev("sline", "elif", -1)
    [] k = "else"  -> IF AllActive(c) THEN Ev("rline", "else", -1) ELSE Ev("sline", "else", -1)
    [] k = "endif" -> IF AllActive(c) THEN Ev("rline", "endif", -1) ELSE Ev("sline", "endif", -1)
    [] OTHER       -> IF AllActive(c) THEN Ev("rline", "other", -1) ELSE Ev("sline", "other", -1)
Flip(e) == [e EXCEPT !.ev = IF @ = "rline" THEN "sline" ELSE "rline"]
JudgeComplete ==
  \A k \in Lines, b \in BOOLEAN :
    Enabled(k) => LET j == Tp!ReaderStep(c, RefEvent(k, b)) IN j.ok /\ j.c = NextC(k, b)
JudgeSound ==
  \A k \in Lines, b \in BOOLEAN :
    Enabled(k) =>
      LET e == RefEvent(k, b) IN
      \* a line of a selected branch reported as passed over, or the reverse
      /\ k \in {"other", "else", "endif"} => ~Tp!ReaderStep(c, Flip(e)).ok
      /\ k = "if" => ~Tp!ReaderStep(c, [Flip(e) EXCEPT !.taken = IF e.ev = "rline" THEN -1 ELSE T(b)]).ok
      \* an evaluated condition reported with the other outcome: accepted as an event (the judge cannot know the value),
      \* but the judge's stack then selects differently -- the very next line exposes it
      /\ e.taken \in {0, 1} =>
           LET j == Tp!ReaderStep(c, [e EXCEPT !.taken = 1 - @]) IN AllActive(j.c) # AllActive(NextC(k, b))
Theorems == Agree /\ AtMostOne /\ NoPeek /\ Decides /\ JudgeComplete /\ JudgeSound
=============================================================================
