--------------------------------- MODULE Cli ---------------------------------
(***************************************************************************)
(* One run of the command-line tool, as a relation between what the        *)
(* library builds for the source, the options, the state of the output     *)
(* locations, and what the process did: files before/after, exit status,   *)
(* whether anything was printed.                                           *)
(*                                                                         *)
(* run: [lib |-> [ok, code, eeprom],        what the library builds        *)
(*       flash, eep |-> [present, changed, recs],  the file at the flash   *)
(*           / EEPROM output path after the run (-o / -e or <stem>.hex /   *)
(*           <stem>.eep.hex next to the source): exists, differs from      *)
(*           before, its lexed records                                     *)
(*       flash_writable, eep_writable,      whether that location can be   *)
(*           written at all (a fact of the scenario): not when the parent  *)
(*           is missing, it is a directory or a full device - and, for the *)
(*           EEPROM image, not when it is the file the flash image goes to *)
(*           under any name (the same path, a symbolic link, a hard link): *)
(*           one file cannot hold both images                              *)
(*       others_changed, exit, printed,                                    *)
(*       report_ok]   the memory figures printed with -v equal those of    *)
(*           the library's result (TRUE when nothing of the kind is shown) *)
(***************************************************************************)
EXTENDS IHex

Decodes(f, img) == f.present /\ ReproducesImg(f.recs, img)
Untouched(f) == ~f.changed

Allowed(run) ==
  IF ~run.lib.ok
  THEN \* a failed build creates or alters nothing, says so, and exits non-zero
       /\ Untouched(run.flash) /\ Untouched(run.eep) /\ ~run.others_changed
       /\ run.exit # 0 /\ run.printed
  ELSE LET needFlash == run.lib.code # << >>
           needEep   == run.lib.eeprom # << >>
           flashFail == needFlash /\ ~run.flash_writable
           eepFail   == needEep /\ ~run.eep_writable
       IN /\ ~run.others_changed
          \* with -v the figures printed (usage and size of each memory) are the ones the library reports
          /\ run.report_ok
          \* the flash image: written where it should be and decoding to exactly the library's image;
          \* an empty image may or may not produce a file, but one that is produced decodes to the empty image
          /\ (needFlash /\ run.flash_writable => Decodes(run.flash, run.lib.code))
          /\ (~needFlash /\ run.flash.changed => Decodes(run.flash, << >>))
          \* the EEPROM image: a file iff the image is not empty
          /\ (needEep /\ run.eep_writable /\ ~flashFail => Decodes(run.eep, run.lib.eeprom))
          /\ (needEep /\ run.eep.changed => Decodes(run.eep, run.lib.eeprom))
          /\ (~needEep => Untouched(run.eep))
          \* an output that cannot be written is reported and the exit status says so
          /\ IF flashFail \/ eepFail THEN run.exit # 0 /\ run.printed ELSE run.exit = 0
=============================================================================
