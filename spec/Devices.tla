------------------------------- MODULE Devices -------------------------------
(***************************************************************************)
(* What a device's feature flags take away, and what its capacities allow. *)
(* The flag names and their meaning are those documented on the device     *)
(* table's flag type; the rows of the table itself are data, exported from *)
(* the implementation's public table at run time.                          *)
(***************************************************************************)
EXTENDS Integers, Sequences, FiniteSets

MulFamily == {"mul", "muls", "mulsu", "fmul", "fmuls", "fmulsu"}
Tiny1xLacks == {"adiw", "sbiw", "ijmp", "icall", "ldd", "std", "lds", "sts", "push", "pop"}
PointerOps == {"ld", "st", "ldd", "std"}

\* the pointer register an ld/st family instruction uses, or "-" if it has no index operand
PointerOf(ops) ==
  IF \E i \in 1..Len(ops) : ops[i].k = "ix"
  THEN ops[CHOOSE i \in 1..Len(ops) : ops[i].k = "ix"].reg
  ELSE "-"

HasDisplacement(ops) == \E i \in 1..Len(ops) : ops[i].k = "ix" /\ ops[i].mode = "disp"

Unavailable(mn, ops, flags) ==
  \/ "NoMul"    \in flags /\ mn \in MulFamily
  \/ "NoJmp"    \in flags /\ mn \in {"jmp", "call"}
  \/ "NoMovw"   \in flags /\ mn = "movw"
  \/ "NoBreak"  \in flags /\ mn = "break"
  \/ "NoEicall" \in flags /\ mn = "eicall"
  \/ "NoEijmp"  \in flags /\ mn = "eijmp"
  \/ "NoSpm"    \in flags /\ mn = "spm"
  \/ "NoEspm"   \in flags /\ mn = "spm" /\ Len(ops) > 0                          \* SPM Z+ is the ESPM instruction
  \/ "NoLpm"    \in flags /\ mn = "lpm"
  \/ "NoLpmX"   \in flags /\ mn = "lpm" /\ Len(ops) > 0
  \/ "NoElpm"   \in flags /\ mn = "elpm"
  \/ "NoElpmX"  \in flags /\ mn = "elpm" /\ Len(ops) > 0
  \/ "Tiny1x"   \in flags /\ mn \in Tiny1xLacks
  \/ "Tiny1x"   \in flags /\ mn \in {"ld", "st"} /\ HasDisplacement(ops)      \* ldd/std, however the mnemonic is written
  \/ "Avr8l"    \in flags /\ mn \in {"adiw", "sbiw"}
  \/ "NoXreg"   \in flags /\ mn \in PointerOps /\ PointerOf(ops) = "X"
  \/ "NoYreg"   \in flags /\ mn \in PointerOps /\ PointerOf(ops) = "Y"

CoreOf(flags) == IF "Avr8l" \in flags THEN "reduced" ELSE "classic"

(* Capacities: flash in words, eeprom and ram in bytes.                    *)
Fits(dev, codeBytes, eepBytes, ramFill) ==
  /\ codeBytes <= 2 * dev.flash
  /\ eepBytes  <= dev.eeprom
  /\ ramFill   <= dev.ramsize

\* the documented defaults when no device is selected
DefaultDevice == [flash |-> 4194304, ramstart |-> 96, ramsize |-> 8388608, eeprom |-> 65536, flags |-> {}]
=============================================================================
