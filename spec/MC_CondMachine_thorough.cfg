SPECIFICATION Spec
CONSTANTS MaxDepth = 8
          Broken = FALSE
INVARIANT Theorems
CHECK_DEADLOCK FALSE
