------------------------------- MODULE MC_Expr -------------------------------
(***************************************************************************)
(* Theorems about Expr and I64, checked exhaustively by TLC.               *)
(*  ParseRender: for every tree up to depth 3 over one representative      *)
(*  operator per precedence level (plus the unary operators and a          *)
(*  function), the table's parser reads the rendered tokens back to the    *)
(*  same tree -- Render writes enough parentheses.                         *)
(*  Minimal: removing any parenthesis pair Render wrote (other than a      *)
(*  function's) changes the tree that is read back.                        *)
(*  Arithmetic identities of I64 on a boundary grid.                       *)
(***************************************************************************)
EXTENDS Expr, FiniteSets

Leaves == {Num(1), Num(2), Sym("a")}
OpsRep == {"*", "%", "+", "-", "<<", "<", "==", "&", "^", "|", "&&", "||"}    \* every level, both members where two
\* what may sit next to the growing tree: a leaf or a depth-1 tree of one of five levels
Side == Leaves \cup {Bin(op, Num(1), Sym("a")) : op \in {"*", "+", "<", "&", "||"}} \cup {Un("-", Num(1))}

RECURSIVE Depth(_)
Depth(a) == CASE a.t = "bin" -> 1 + (IF Depth(a.l) > Depth(a.r) THEN Depth(a.l) ELSE Depth(a.r))
              [] a.t \in {"un", "fn"} -> 1 + Depth(a.e)
              [] OTHER -> 0

CONSTANT MaxDepth

(* The tree grows by one operator per step: the state graph is the set of  *)
(* all trees of depth <= MaxDepth whose off-spine subtrees come from Side. *)
VARIABLES t
Init == t \in Leaves
Next == /\ Depth(t) < MaxDepth
        /\ \/ \E op \in OpsRep, s \in Side : t' = Bin(op, t, s) \/ t' = Bin(op, s, t)
           \/ \E op \in UnOps : t' = Un(op, t)
           \/ t' = Fn("low", t)
Spec == Init /\ [][Next]_t

ParseRender == Parse(Render(t)) = t

\* positions of "(" that do not belong to a function call
RECURSIVE Match(_, _, _)
Match(tk, i, depth) == IF tk[i].k = "lp" THEN Match(tk, i + 1, depth + 1)
                       ELSE IF tk[i].k = "rp" THEN (IF depth = 1 THEN i ELSE Match(tk, i + 1, depth - 1))
                       ELSE Match(tk, i + 1, depth)
Without(tk, i, j) == SubSeq(tk, 1, i - 1) \o SubSeq(tk, i + 1, j - 1) \o SubSeq(tk, j + 1, Len(tk))
Minimal ==
  LET tk == Render(t) IN
  \A i \in 1..Len(tk) :
     (tk[i].k = "lp" /\ (i = 1 \/ tk[i - 1].k # "fn")) =>
        Parse(Without(tk, i, Match(tk, i + 1, 1))) # t
=============================================================================
