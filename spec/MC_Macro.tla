------------------------------ MODULE MC_Macro ------------------------------
(***************************************************************************)
(* Model-checks the macro part of Assembler.tla against the property's own *)
(* wording (C09): "calling a macro assembles exactly what its body would   *)
(* assemble at that point with each @n standing for the n-th argument".    *)
(* A program grows one line per step: first the body of macro m (two       *)
(* parameters; conditionals on a parameter and on a flag, a nested call of *)
(* macro n, a switch to the EEPROM segment and back), then top-level lines *)
(* before the definitions (calls before the definition), then top-level    *)
(* lines after them.  For every program whose body is well-formed TLC      *)
(* checks                                                                  *)
(*                                                                         *)
(*  HandExpanded  the program builds to the same result as the program     *)
(*                with the definitions removed and every call replaced by  *)
(*                the body with the arguments substituted (nested calls    *)
(*                replaced likewise) -- a purely textual flattening, no    *)
(*                expansion machinery;                                     *)
(*  and, with Broken = TRUE, that an expansion which substitutes the text  *)
(*  of an argument without keeping it a unit ("@1*2" with 1+2 for @1)      *)
(*  violates it -- non-vacuity.                                            *)
(* Definitions that conditions of a body depend on are made before the     *)
(* first call (expansion is deferred to the end of reading, so that calls  *)
(* before the definition work; what a body sees of definitions made after  *)
(* the call is not settled by the property).                               *)
(***************************************************************************)
EXTENDS Assembler
CONSTANTS MaxBody, MaxTop, Broken

L(k) == [k |-> k, ln |-> 0, lab |-> ""]
Rg(n) == [k |-> "r", n |-> n]
Ex(e) == [k |-> "e", e |-> e]
PO(i) == [k |-> "arg", i |-> i]            \* parameter as a whole operand
PE(i) == [t |-> "arg", i |-> i]            \* parameter inside an expression
Instr(mn, ops) == L("instr") @@ [mn |-> mn, ops |-> ops]
Db(elems) == L("data") @@ [w |-> 1, elems |-> elems]
Call(n, args) == L("call") @@ [n |-> n, args |-> args]
Seg(s) == L("seg") @@ [s |-> s]

BodyStmts == { Instr("ldi", <<PO(0), Ex(Bin("&", Bin("*", PE(1), Num(2)), Num(255)))>>),
               Db(<<PO(1), Ex(Bin("-", Num(9), PE(1)))>>),
               Call("n", <<PO(0)>>),
               Seg("eeprom"), Seg("code") }
BodyOpeners == { L("if") @@ [e |-> Bin("==", PE(1), Num(3))], L("ifdef") @@ [n |-> "FLAG"] }
NBody == << Instr("inc", <<PO(0)>>) >>                               \* macro n: one parameter
ArgSets == { <<Rg(16), Ex(Num(3))>>, <<Rg(17), Ex(Bin("+", Num(1), Num(2)))>>, <<Rg(18), Ex(Num(4))>>, <<Rg(19)>> }   \* the last: an argument missing
TopStmts == { Instr("nop", << >>), L("define") @@ [n |-> "FLAG"] } \cup { Call("m", a) : a \in ArgSets } \cup { Call("n", <<Rg(20)>>) }

VARIABLES body, shape, pre, post, phase
vars == <<body, shape, pre, post, phase>>
Init == body = << >> /\ shape = << >> /\ pre = << >> /\ post = << >> /\ phase = "body"
HasCall(s) == \E i \in 1..Len(s) : s[i].k = "call"
GrowBody ==
  /\ phase = "body" /\ Len(body) < MaxBody /\ UNCHANGED <<pre, post, phase>>
  /\ \/ \E s \in BodyStmts : body' = Append(body, s) /\ UNCHANGED shape
     \/ \E o \in BodyOpeners : Len(shape) < 2 /\ body' = Append(body, o) /\ shape' = Append(shape, FALSE)
     \/ shape # << >> /\ ~shape[Len(shape)] /\ body' = Append(body, L("else")) /\ shape' = [shape EXCEPT ![Len(shape)] = TRUE]
     \/ shape # << >> /\ body' = Append(body, L("endif")) /\ shape' = SubSeq(shape, 1, Len(shape) - 1)
GrowTop(which) ==
  /\ Len(pre) + Len(post) < MaxTop /\ shape = << >> /\ body # << >> /\ UNCHANGED <<body, shape>>
  /\ \E s \in TopStmts :
       /\ s.k = "define" => ~HasCall(pre) /\ ~HasCall(post)          \* flags are set before the first call
       /\ IF which = "pre" THEN phase \in {"body", "pre"} /\ pre' = Append(pre, s) /\ post' = post /\ phase' = "pre"
          ELSE post' = Append(post, s) /\ pre' = pre /\ phase' = "post"
Next == GrowBody \/ GrowTop("pre") \/ GrowTop("post")
Spec == Init /\ [][Next]_vars
Complete == shape = << >> /\ body # << >>

Number(p) == [i \in 1..Len(p) |-> [p[i] EXCEPT !.ln = i]]
Defs == <<L("macro") @@ [n |-> "n"]>> \o NBody \o <<L("endm")>> \o <<L("macro") @@ [n |-> "m"]>> \o body \o <<L("endm")>>
Whole == Number(pre \o Defs \o post)

-----------------------------------------------------------------------------
(* the declarative reading: flatten the text                               *)
RECURSIVE FlatSeq(_, _, _)
FlatLine(line, depth) ==
  IF line.k # "call" THEN <<line>>
  ELSE IF depth = 0 \/ line.n \notin {"m", "n"} THEN <<L("garbage")>>
  ELSE LET b == IF line.n = "m" THEN body ELSE NBody
           sub == [j \in 1..Len(b) |-> SubstLine(b[j], line.args)]
       IN FlatSeq(sub, 1, depth - 1)
FlatSeq(s, i, depth) == IF i > Len(s) THEN << >> ELSE FlatLine(s[i], depth) \o FlatSeq(s, i + 1, depth)
Flat == Number(FlatSeq(pre \o post, 1, 3))

\* non-vacuity: an expansion that does not keep an argument a unit -- "@1*2" with 1+2 for @1 becomes 1+2*2
RECURSIVE Unpar(_)
Unpar(a) == CASE a.t = "par" -> a.e                                   \* drops the unit marker SubstE puts around an argument
              [] a.t \in {"un", "fn"} -> [a EXCEPT !.e = Unpar(a.e)]
              [] a.t = "bin" -> IF a.op = "*" /\ a.l.t = "par" /\ a.l.e.t = "bin" /\ a.l.e.op = "+"
                                THEN [t |-> "bin", op |-> "+", l |-> a.l.e.l, r |-> [t |-> "bin", op |-> "*", l |-> a.l.e.r, r |-> a.r]]
                                ELSE [a EXCEPT !.l = Unpar(a.l), !.r = Unpar(a.r)]
              [] OTHER -> a
BreakLine(line) == IF line.k = "instr" THEN [line EXCEPT !.ops = [i \in 1..Len(@) |-> IF @[i].k = "e" THEN [@[i] EXCEPT !.e = Unpar(@)] ELSE @[i]]] ELSE line
FlatUsed == IF Broken THEN [i \in 1..Len(Flat) |-> BreakLine(Flat[i])] ELSE Flat

Same(x, y) == /\ x.ok = y.ok
              /\ x.ok => x.code = y.code /\ x.eeprom = y.eeprom /\ x.ramfill = y.ramfill /\ x.codelen = y.codelen /\ x.eeplen = y.eeplen
HandExpanded == Complete => Same(Run(Whole, << >>, TRUE), Run(FlatUsed, << >>, TRUE))
=============================================================================
