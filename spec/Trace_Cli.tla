------------------------------ MODULE Trace_Cli ------------------------------
EXTENDS Cli, Json, IOUtils, TLC
Rec_ == ndJsonDeserialize(IOEnv.TRACE)
VARIABLES l, nbad
vars == <<l, nbad>>
Why(run) ==
  IF ~run.lib.ok THEN [lib |-> "fails", must |-> "no file created or altered, something printed, exit status non-zero"]
  ELSE [lib |-> "ok", must |-> "flash file decodes to the library image, EEPROM file iff image non-empty, nothing else changes, exit 0 unless an output is unwritable (then non-zero and reported)"]
Init == l = 1 /\ nbad = 0
Judge(ok) ==
  /\ l <= Len(Rec_)
  /\ Allowed(Rec_[l]) = ok
  /\ IF ok THEN nbad' = nbad ELSE /\ PrintT(<<"REJECT", l, ToJson(Why(Rec_[l]))>>) /\ nbad' = nbad + 1
  /\ l' = l + 1
Next == Judge(TRUE) \/ Judge(FALSE)
Spec == Init /\ [][Next]_vars
AllConsumed == TLCGet("stats").diameter - 1 = Len(Rec_)
=============================================================================
