-------------------------------- MODULE IHex --------------------------------
(***************************************************************************)
(* Intel HEX: record well-formedness, checksum, and an independent reader  *)
(* as a state machine over records.  A record is                           *)
(*    [len, addr, type, data, sum]   (all fields as lexed from hex digits) *)
(* or [bad |-> TRUE] for a line that is not ':' followed by an even number *)
(* of hex digits making up at least five bytes.                            *)
(* Img(seed, i) is the byte the image under test holds at address i.       *)
(***************************************************************************)
EXTENDS Integers, Sequences, FiniteSets

\* seeds 0..6: a pattern in which every byte value occurs and which differs across 256-byte and 64 KiB blocks;
\* 7: erased memory (all FF); 8: all zero; 9: the pattern with every third 16-byte row erased
Pattern(seed, i) == ((i % 256) * 7 + seed * 13 + ((i \div 256) % 256) * 3 + (i \div 65536) * 5) % 256
Img(seed, i) == CASE seed = 7 -> 255
                  [] seed = 8 -> 0
                  [] seed = 9 -> (IF (i \div 16) % 3 = 1 THEN 255 ELSE Pattern(seed, i))
                  [] OTHER -> Pattern(seed, i)

RECURSIVE SumSeq(_, _)
SumSeq(s, i) == IF i > Len(s) THEN 0 ELSE s[i] + SumSeq(s, i + 1)

IsBad(r) == "bad" \in DOMAIN r
WellFormed(r) ==
  /\ ~IsBad(r)
  /\ r.len = Len(r.data)
  /\ r.type \in 0..5
  /\ (r.len + (r.addr \div 256) + (r.addr % 256) + r.type + SumSeq(r.data, 1) + r.sum) % 256 = 0
  /\ (r.type = 1 => r.len = 0)
  /\ (r.type \in {2, 4} => r.len = 2)
  /\ (r.type \in {3, 5} => r.len = 4)

(* reader state: base address, covered intervals (disjoint, maximal),      *)
(* end-of-file seen, still acceptable                                      *)
InitReader == [base |-> 0, cov |-> {}, eof |-> FALSE, ok |-> TRUE]

Overlaps(cov, a, b) == \E iv \in cov : a < iv[2] /\ iv[1] < b
AddInterval(cov, a, b) ==
  LET left  == {iv \in cov : iv[2] = a}
      right == {iv \in cov : iv[1] = b}
      lo == IF left = {} THEN a ELSE (CHOOSE iv \in left : TRUE)[1]
      hi == IF right = {} THEN b ELSE (CHOOSE iv \in right : TRUE)[2]
  IN (cov \ (left \cup right)) \cup {<<lo, hi>>}

\* contents: the pattern Img(seed, .) when seed >= 0, else the explicit byte sequence img (address a is img[a+1])
DataOK(r, a, seed, img) == \A i \in 1..r.len : r.data[i] = (IF seed >= 0 THEN Img(seed, a + i - 1) ELSE img[a + i])

Word(d) == d[1] * 256 + d[2]

(* One record.  n is the image length, seed its contents.                  *)
ReadRecord(rd, r, n, seed, img) ==
  IF ~rd.ok THEN rd
  ELSE IF ~WellFormed(r) \/ rd.eof THEN [rd EXCEPT !.ok = FALSE]       \* nothing may follow the end-of-file record
  ELSE CASE r.type = 0 ->
              LET a == rd.base + r.addr IN
              IF r.len = 0 THEN rd
              ELSE IF r.addr + r.len > 65536              \* would wrap inside the 64 KiB window
                      \/ a + r.len > n                     \* bytes outside the image
                      \/ Overlaps(rd.cov, a, a + r.len)    \* a byte given twice
                      \/ ~DataOK(r, a, seed, img)          \* wrong contents
                   THEN [rd EXCEPT !.ok = FALSE]
                   ELSE [rd EXCEPT !.cov = AddInterval(@, a, a + r.len)]
         [] r.type = 1 -> [rd EXCEPT !.eof = TRUE]
         [] r.type = 2 -> [rd EXCEPT !.base = 16 * Word(r.data)]
         [] r.type = 4 -> [rd EXCEPT !.base = 65536 * Word(r.data)]
         [] OTHER -> rd                                     \* start address records carry no image data

\* balanced recursion (records are still read first to last): TLC's cost grows with the square of the depth
RECURSIVE ReadRange(_, _, _, _, _, _, _)
ReadRange(rd, recs, lo, hi, n, seed, img) ==
  IF lo > hi THEN rd
  ELSE IF lo = hi THEN ReadRecord(rd, recs[lo], n, seed, img)
  ELSE LET mid == (lo + hi) \div 2 IN
       ReadRange(ReadRange(rd, recs, lo, mid, n, seed, img), recs, mid + 1, hi, n, seed, img)
ReadFrom(rd, recs, i, n, seed) == ReadRange(rd, recs, i, Len(recs), n, seed, << >>)

(* The file reproduces the image: only well-formed records, exactly one    *)
(* end-of-file record at the end, every byte once and none elsewhere.      *)
Reproduces(recs, n, seed) ==
  LET rd == ReadFrom(InitReader, recs, 1, n, seed) IN
  /\ rd.ok /\ rd.eof
  /\ rd.cov = (IF n = 0 THEN {} ELSE {<<0, n>>})

\* the same for an image given as a byte sequence
ReproducesImg(recs, img) ==
  LET rd == ReadRange(InitReader, recs, 1, Len(recs), Len(img), -1, img) IN
  /\ rd.ok /\ rd.eof
  /\ rd.cov = (IF img = << >> THEN {} ELSE {<<0, Len(img)>>})

-----------------------------------------------------------------------------
(* Reference writer, parameterised so that the boundary structure of the   *)
(* real format (RecLen 16, Block 65536) can be model-checked at toy scale. *)
Cksum(len, addr, type, data) ==
  (256 - ((len + (addr \div 256) + (addr % 256) + type + SumSeq(data, 1)) % 256)) % 256
Rec(addr, type, data) == [len |-> Len(data), addr |-> addr, type |-> type, data |-> data,
                          sum |-> Cksum(Len(data), addr, type, data)]
Min(a, b) == IF a < b THEN a ELSE b

RECURSIVE WriteBlock(_, _, _, _, _, _)
WriteBlock(seed, base, off, end, RecLen, acc) ==      \* data records for image bytes base+off .. base+end-1
  IF off >= end THEN acc
  ELSE LET k == Min(RecLen, end - off) IN
       WriteBlock(seed, base, off + k, end, RecLen,
                  Append(acc, Rec(off, 0, [i \in 1..k |-> Img(seed, base + off + i - 1)])))
RECURSIVE WriteFrom(_, _, _, _, _, _)
WriteFrom(n, seed, b, RecLen, Block, acc) ==
  IF b * Block >= n THEN Append(acc, Rec(0, 1, << >>))
  ELSE LET seg == (b * Block) \div 16
           hdr == Rec(0, 2, <<seg \div 256, seg % 256>>)
       IN WriteFrom(n, seed, b + 1, RecLen, Block,
                    WriteBlock(seed, b * Block, 0, Min(Block, n - b * Block), RecLen, Append(acc, hdr)))
Write(n, seed, RecLen, Block) == WriteFrom(n, seed, 0, RecLen, Block, << >>)
=============================================================================
