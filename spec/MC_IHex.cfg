SPECIFICATION Spec
CONSTANT MaxLen = 70
INVARIANT RoundTrip
INVARIANT Rejects
CHECK_DEADLOCK FALSE
