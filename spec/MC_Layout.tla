------------------------------ MODULE MC_Layout ------------------------------
(***************************************************************************)
(* Model-checks the layout and emission part of Assembler.tla against the  *)
(* wording of C02.  A program grows by one item per step over one- and     *)
(* two-word instructions, odd and even byte data, words, reservations,     *)
(* labels, forward .org and segment switches; for every program that       *)
(* builds TLC checks on the kept intermediate states                       *)
(*  LandsWhereAssigned  each emitted fragment sits in the image at the     *)
(*                      address layout assigned to it                      *)
(*  NoOverlap           no image byte is written twice                     *)
(*  GapsAreZero         every image byte no fragment covers is zero        *)
(*  ImageEndsAtLastItem the image ends where the last fragment ends        *)
(*  LabelAtNextItem     a label's value is the address of the item that    *)
(*                      follows it in its block                            *)
(*  OrgHonoured         the item after `.org N` starts at N                *)
(*  RamUsage            RAM usage is the extent of the data segment        *)
(***************************************************************************)
EXTENDS Assembler
CONSTANTS MaxLen

L(k) == [k |-> k, ln |-> 0, lab |-> ""]
Nop    == L("instr") @@ [mn |-> "nop", ops |-> << >>]
Jmp    == L("instr") @@ [mn |-> "jmp", ops |-> <<[k |-> "e", e |-> Num(4660)]>>]
Db(n)  == L("data") @@ [w |-> 1, elems |-> [i \in 1..n |-> [k |-> "e", e |-> Num(64 + i)]]]
Dw     == L("data") @@ [w |-> 2, elems |-> <<[k |-> "e", e |-> Num(48879)]>>]
Byte2  == L("byte") @@ [e |-> Num(2)]
Lab(i) == [L("blank") EXCEPT !.lab = "l" \o ToString(i)]
Seg(s) == L("seg") @@ [s |-> s]
Org(n) == L("org") @@ [e |-> Num(n)]

VARIABLES prog, upper      \* upper: a bound on every location counter (to aim .org ahead of it)
vars == <<prog, upper>>
Init == prog = << >> /\ upper = 96
Grow ==
  /\ Len(prog) < MaxLen
  /\ \/ \E it \in {Nop, Jmp, Db(1), Db(2), Db(3), Dw, Byte2, Lab(Len(prog) + 1), Seg("code"), Seg("data"), Seg("eeprom")} :
          prog' = Append(prog, it) /\ upper' = upper + 2
     \/ prog' = Append(prog, Org(upper + 3)) /\ upper' = upper + 3
Spec == Init /\ [][Grow]_vars

Whole == [i \in 1..Len(prog) |-> [prog[i] EXCEPT !.ln = i]]
Cover(e) == (Unit(e.seg) * e.a + 1)..(Unit(e.seg) * e.a + Len(e.bytes))

LandsWhereAssigned(d) ==
  LET log == d.em.log IN
  \A i \in 1..Len(log) :
     /\ Unit(log[i].seg) * log[i].a + Len(log[i].bytes) <= Len(d.em.img[log[i].seg])
     /\ SubSeq(d.em.img[log[i].seg], Unit(log[i].seg) * log[i].a + 1, Unit(log[i].seg) * log[i].a + Len(log[i].bytes)) = log[i].bytes
NoOverlap(d) ==
  LET log == d.em.log IN
  \A i, j \in 1..Len(log) : i < j /\ log[i].seg = log[j].seg => Cover(log[i]) \cap Cover(log[j]) = {}
GapsAreZero(d) ==
  LET log == d.em.log IN
  \A seg \in {"code", "eeprom"} :
     LET covered == UNION {Cover(log[i]) : i \in {j \in 1..Len(log) : log[j].seg = seg}} IN
     \A b \in 1..Len(d.em.img[seg]) : b \notin covered => d.em.img[seg][b] = 0
ImageEndsAtLastItem(d) ==
  LET log == d.em.log IN
  \A seg \in {"code", "eeprom"} :
     LET ends == {Unit(seg) * log[i].a + Len(log[i].bytes) : i \in {j \in 1..Len(log) : log[j].seg = seg /\ Len(log[j].bytes) > 0}} IN
     ends # {} => \A e \in ends : e <= Len(d.em.img[seg]) /\ Len(d.em.img[seg]) \in ends
LabelAtNextItem(d) ==
  LET items == d.read.items
      pos == d.lay.pos
  IN \A i \in 1..Len(items) :
        (items[i].k = "label" /\ i < Len(items) /\ items[i + 1].k \in {"instr", "data", "byte", "label"})
           => d.lay.labels[items[i].n] = pos[i + 1].a /\ pos[i].s = pos[i + 1].s
OrgHonoured(d) ==
  LET items == d.read.items
      pos == d.lay.pos
  IN \A i \in 1..Len(items) :
        (items[i].k = "org" /\ i < Len(items) /\ items[i + 1].k \in {"instr", "data", "byte", "label"})
           => pos[i + 1].a = ConstNat(items[i].e, << >>)
RamUsage(d) == d.lay.cnt.data >= 96 /\ d.em.end.data <= d.lay.cnt.data

\* one build per state, all theorems on it
Theorems ==
  LET d == RunDetail(Whole, << >>) IN
  d.ok => /\ LandsWhereAssigned(d) /\ NoOverlap(d) /\ GapsAreZero(d) /\ ImageEndsAtLastItem(d)
          /\ LabelAtNextItem(d) /\ OrgHonoured(d) /\ RamUsage(d)
\* non-vacuity: among the programs that build there are ones with gaps, with several segments, with labels
SomeBuild == ~(Len(prog) = MaxLen /\ RunDetail(Whole, << >>).ok /\ Len(RunDetail(Whole, << >>).em.log) >= 3)
=============================================================================
