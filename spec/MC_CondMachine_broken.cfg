SPECIFICATION Spec
CONSTANTS MaxDepth = 3
          Broken = TRUE
INVARIANT Agree
INVARIANT AtMostOne
CHECK_DEADLOCK FALSE
