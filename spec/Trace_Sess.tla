------------------------------ MODULE Trace_Sess ------------------------------
(***************************************************************************)
(* Replays recorded build sessions through the actions of Api.tla.         *)
(* First record of a trace: [ev |-> "alone", table |-> [program -> digest  *)
(* of its result when built alone in a fresh process]].  Then, per         *)
(* history: "reset", and "start"/"stage"/"end" events of its threads; an   *)
(* "end" event carries the digest r of the result the build produced.      *)
(* End(t) of the specification ends a build with Alone[p]: the event is    *)
(* explained by the specification iff r = Alone[Key(p, e)], e being the    *)
(* working directory ("chdir" events) the process stood in at the start.   *)
(***************************************************************************)
EXTENDS Json, IOUtils, Integers, Sequences, FiniteSets, TLC
Rec_ == ndJsonDeserialize(IOEnv.TRACE)
Table == Rec_[1].table
VARIABLES running, done, env, l, nbad
Progs_ == {Rec_[i].p : i \in {j \in 2..Len(Rec_) : Rec_[j].ev = "start"}}
A == INSTANCE Api WITH Threads <- 0..31, Programs <- Progs_, Alone <- Table
vars == <<running, done, env, l, nbad>>
Init == A!SessInit /\ l = 2 /\ nbad = 0
Ev(k) == l <= Len(Rec_) /\ Rec_[l].ev = k /\ l' = l + 1
Reset == Ev("reset") /\ running' = [t \in 0..31 |-> A!IdleRec] /\ done' = << >> /\ env' = A!NoEnv /\ UNCHANGED nbad
TChdir == Ev("chdir") /\ A!Chdir(Rec_[l].d) /\ UNCHANGED nbad
TStart == Ev("start") /\ A!Start(Rec_[l].t, Rec_[l].p) /\ UNCHANGED nbad
TStage == Ev("stage") /\ A!Stage(Rec_[l].t) /\ UNCHANGED nbad
\* the specification's End with the logged result bound to it
Explained(e) == /\ ~A!Idle(e.t) /\ running[e.t].s = Len(A!Stages) /\ running[e.t].p = e.p
                /\ A!Key(e.p, running[e.t].e) \in DOMAIN Table
                /\ e.r = Table[A!Key(e.p, running[e.t].e)]
TEndOk == Ev("end") /\ Explained(Rec_[l]) /\ A!End(Rec_[l].t) /\ UNCHANGED nbad
\* a logged result the specification cannot explain: reported, and the thread is released so that the rest is judged
TEndBad == /\ Ev("end") /\ ~Explained(Rec_[l])
           /\ PrintT(<<"REJECT", l, ToJson([expected |-> IF A!Key(Rec_[l].p, running[Rec_[l].t].e) \in DOMAIN Table THEN Table[A!Key(Rec_[l].p, running[Rec_[l].t].e)] ELSE "?"])>>)
           /\ nbad' = nbad + 1 /\ running' = [running EXCEPT ![Rec_[l].t] = A!IdleRec] /\ UNCHANGED <<done, env>>
Next == Reset \/ TChdir \/ TStart \/ TStage \/ TEndOk \/ TEndBad
Spec == Init /\ [][Next]_vars
AllConsumed == TLCGet("stats").diameter = Len(Rec_)
=============================================================================
