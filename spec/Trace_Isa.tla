------------------------------ MODULE Trace_Isa ------------------------------
(***************************************************************************)
(* Judges recorded single-instruction builds against AvrIsa / Devices.     *)
(* One event per step; an event that the specification does not allow is   *)
(* reported (REJECT line with the expected outcome) and counted, and the   *)
(* run goes on so that every event of the trace is judged.                 *)
(*                                                                         *)
(* event: [mn, ops, flags (device feature flags), addr, res \in {"ok",     *)
(*         "err", "panic", ...}, w (words, when ok)]                       *)
(***************************************************************************)
EXTENDS AvrIsa, Json, IOUtils
D == INSTANCE Devices

Rec == ndJsonDeserialize(IOEnv.TRACE)

VARIABLES l, nbad
vars == <<l, nbad>>

FlagSet(e) == {e.flags[i] : i \in DOMAIN e.flags}

Expected(e) ==
  LET flags == FlagSet(e) IN
  IF e.mn \in Mnemonics /\ D!Unavailable(e.mn, e.ops, flags)
  THEN [ok |-> FALSE, w |-> << >>]
  ELSE EncodeResult(e.mn, e.ops, D!CoreOf(flags), e.addr)

Accept(e) ==
  LET x == Expected(e) IN
  IF x.ok
  THEN /\ e.res = "ok"
       /\ e.w = x.w
       \* the independent decoder gives back what was written (or its documented alias)
       /\ Decode(e.w, D!CoreOf(FlagSet(e)), e.addr) = Canon(e.mn, e.ops, D!CoreOf(FlagSet(e)), e.addr)
  ELSE e.res = "err"

Init == l = 1 /\ nbad = 0

Judge(ok) ==
  /\ l <= Len(Rec)
  /\ Accept(Rec[l]) = ok
  /\ l' = l + 1
  /\ IF ok THEN nbad' = nbad
     ELSE /\ PrintT(<<"REJECT", l, ToJson(Expected(Rec[l]))>>)
          /\ nbad' = nbad + 1

EncAccepted == Judge(TRUE)
EncRejected == Judge(FALSE)
Next == EncAccepted \/ EncRejected
Spec == Init /\ [][Next]_vars

AllConsumed == TLCGet("stats").diameter - 1 = Len(Rec)
=============================================================================
