SPECIFICATION Spec
CONSTANTS MaxBody = 4
          MaxTop = 3
          Broken = FALSE
INVARIANT HandExpanded
CHECK_DEADLOCK FALSE
