----------------------------- MODULE Export_Api -----------------------------
EXTENDS Json, SequencesExt, Integers, Sequences, FiniteSets, TLC
A == INSTANCE Api WITH Threads <- {}, Programs <- {}, Alone <- << >>, running <- 0, done <- 0, env <- 0
ASSUME PrintT(<<"TABLE", ToJson([heads |-> SetToSeq(A!Heads), dict |-> A!Dict, contexts |-> A!Contexts])>>)
=============================================================================
