SPECIFICATION Spec
CONSTANT MaxLen = 5
INVARIANT Theorems
CHECK_DEADLOCK FALSE
