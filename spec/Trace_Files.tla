----------------------------- MODULE Trace_Files -----------------------------
(***************************************************************************)
(* Judges recorded builds of file trees (build_file) and of the flattened  *)
(* text (build_str) against Files!RunTree / Assembler!Run, and checks the  *)
(* paste theorem on every recorded tree: the tree and its flattening have  *)
(* the same result.                                                        *)
(* event: [fs, cwd, main, paths, devs, flat, res, resflat, named]          *)
(*   named: the error text contains the missing file's name as written     *)
(***************************************************************************)
EXTENDS Files, Json, IOUtils

Rec == ndJsonDeserialize(IOEnv.TRACE)

VARIABLES l, nbad
vars == <<l, nbad>>

Tree(e) == RunTree(e.fs, e.cwd, e.main, ToSet(e.paths), e.devs, TRUE)
Flat(e) == Run(e.flat, e.devs, TRUE)

SameOK(r, x) ==
  /\ r.r = "ok"
  /\ r.code = x.code /\ r.eeprom = x.eeprom
  /\ r.sizes = x.sizes /\ r.ramfill = x.ramfill
  /\ Len(r.msgs) = Len(x.msgs) /\ \A i \in 1..Len(x.msgs) : r.msgs[i].txt = x.msgs[i].txt

AcceptTree(e, x) ==
  IF x.ok THEN SameOK(e.res, x)
  ELSE e.res.r = "err" /\ (x.missing # "" => e.named)
AcceptFlat(e, y) == IF y.ok THEN SameOK(e.resflat, y) ELSE e.resflat.r = "err"

\* the paste theorem (about the specification; a failure is reported as such, not as a rejection)
Paste(x, y) == /\ x.ok = y.ok
               /\ x.ok => x.code = y.code /\ x.eeprom = y.eeprom /\ x.ramfill = y.ramfill /\ x.sizes = y.sizes
                          /\ [i \in 1..Len(x.msgs) |-> x.msgs[i].txt] = [i \in 1..Len(y.msgs) |-> y.msgs[i].txt]

Brief(x) == IF x.ok THEN [ok |-> TRUE, code |-> x.code, eeprom |-> x.eeprom, sizes |-> x.sizes, ramfill |-> x.ramfill]
            ELSE [ok |-> FALSE, line |-> x.line, phase |-> x.phase]

Init == l = 1 /\ nbad = 0
Judge(ok) ==
  /\ l <= Len(Rec)
  /\ LET e == Rec[l]
         x == Tree(e)
         y == Flat(e)
     IN /\ (e.hasflat => Assert(Paste(x, y), <<"paste theorem fails on event", l>>))
        /\ (AcceptTree(e, x) /\ (e.hasflat => AcceptFlat(e, y))) = ok
        /\ IF ok THEN nbad' = nbad
           ELSE /\ PrintT(<<"REJECT", l, ToJson([tree |-> Brief(x), flat |-> IF e.hasflat THEN Brief(y) ELSE Brief(x)])>>)
                /\ nbad' = nbad + 1
  /\ l' = l + 1
Next == Judge(TRUE) \/ Judge(FALSE)
Spec == Init /\ [][Next]_vars
AllConsumed == TLCGet("stats").diameter - 1 = Len(Rec)
=============================================================================
