SPECIFICATION Spec
CONSTANTS Threads = {0, 1}
          Programs = {"pA", "pB", "pC"}
          Broken = FALSE
INVARIANT Independent
INVARIANT PrintSchedules
CHECK_DEADLOCK FALSE
