SPECIFICATION Spec
POSTCONDITION AllConsumed
CHECK_DEADLOCK FALSE
