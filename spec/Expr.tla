-------------------------------- MODULE Expr --------------------------------
(***************************************************************************)
(* Constant expressions of the AVR assembler: abstract syntax, the         *)
(* operator table (precedence, associativity, meaning), a renderer that    *)
(* writes exactly the parentheses the table requires, the table's own      *)
(* parser, and evaluation on 64-bit signed integers.                       *)
(*                                                                         *)
(* AST:  [t |-> "num", v |-> 0..2^31-1]      literal that fits TLC's int   *)
(*       [t |-> "big", b |-> 8 bytes LE]     literal up to 2^63-1          *)
(*       [t |-> "sym", n |-> name]           name in canonical lower case  *)
(*       [t |-> "bin", op, l, r]  [t |-> "un", op, e]  [t |-> "fn", f, e]  *)
(*       [t |-> "par", e]                    parentheses the author wrote  *)
(*       [t |-> "arg", i |-> 0..9]           macro parameter @i            *)
(***************************************************************************)
EXTENDS I64, TLC

Num(v)        == [t |-> "num", v |-> v]
Sym(n)        == [t |-> "sym", n |-> n]
Bin(op, l, r) == [t |-> "bin", op |-> op, l |-> l, r |-> r]
Un(op, e)     == [t |-> "un", op |-> op, e |-> e]
Fn(f, e)      == [t |-> "fn", f |-> f, e |-> e]

BinOps == {"*", "/", "%", "+", "-", "<<", ">>", "<", "<=", ">", ">=", "==", "!=", "&", "^", "|", "&&", "||"}
UnOps  == {"-", "!", "~"}
Funcs  == {"low", "high", "byte2", "byte3", "byte4", "lwrd", "hwrd", "exp2"}

(* The AVR assembler operator table: higher binds tighter; all binary      *)
(* operators associate to the left; the unary operators bind tightest.     *)
Prec(op) ==
  CASE op \in {"*", "/", "%"}          -> 13
    [] op \in {"+", "-"}               -> 12
    [] op \in {"<<", ">>"}             -> 11
    [] op \in {"<", "<=", ">", ">="}   -> 10
    [] op \in {"==", "!="}             -> 9
    [] op = "&"  -> 8
    [] op = "^"  -> 7
    [] op = "|"  -> 6
    [] op = "&&" -> 5
    [] op = "||" -> 4
UnaryLevel == 14
Level(a) == IF a.t = "bin" THEN Prec(a.op) ELSE IF a.t = "un" THEN UnaryLevel ELSE 15

-----------------------------------------------------------------------------
(* Rendering into tokens with only the parentheses the table requires.     *)
Tok(k, s) == [k |-> k, s |-> s]
LP == Tok("lp", "(")
RP == Tok("rp", ")")

RECURSIVE Render(_)
Wrap(a, need) == IF need THEN <<LP>> \o Render(a) \o <<RP>> ELSE Render(a)
Render(a) ==
  CASE a.t = "num" -> << [k |-> "num", s |-> "", v |-> a.v] >>
    [] a.t = "big" -> << [k |-> "big", s |-> "", b |-> a.b] >>
    [] a.t = "sym" -> << Tok("sym", a.n) >>
    [] a.t = "arg" -> << [k |-> "arg", s |-> "", i |-> a.i] >>
    [] a.t = "par" -> <<LP>> \o Render(a.e) \o <<RP>>
    [] a.t = "fn"  -> << Tok("fn", a.f), LP >> \o Render(a.e) \o <<RP>>
    [] a.t = "un"  -> << Tok("op", a.op) >> \o Wrap(a.e, Level(a.e) < UnaryLevel)
    [] a.t = "bin" -> Wrap(a.l, Level(a.l) < Prec(a.op)) \o << Tok("op", a.op) >>
                      \o Wrap(a.r, Level(a.r) <= Prec(a.op))

-----------------------------------------------------------------------------
(* The table's own parser (precedence climbing) -- used to show that       *)
(* Render writes enough parentheses: Parse(Render(a)) = a.                 *)
RECURSIVE ParseExpr(_, _, _), Climb(_, _, _, _), ParseUnary(_, _), ParseAtom(_, _)
ParseExpr(tk, pos, minp) == LET l == ParseUnary(tk, pos) IN Climb(tk, l.a, l.pos, minp)
Climb(tk, left, pos, minp) ==
  IF pos <= Len(tk) /\ tk[pos].k = "op" /\ tk[pos].s \in BinOps /\ Prec(tk[pos].s) >= minp
  THEN LET op == tk[pos].s
           r  == ParseExpr(tk, pos + 1, Prec(op) + 1)
       IN Climb(tk, Bin(op, left, r.a), r.pos, minp)
  ELSE [a |-> left, pos |-> pos]
ParseUnary(tk, pos) ==
  IF tk[pos].k = "op" /\ tk[pos].s \in UnOps
  THEN LET e == ParseUnary(tk, pos + 1) IN [a |-> Un(tk[pos].s, e.a), pos |-> e.pos]
  ELSE ParseAtom(tk, pos)
ParseAtom(tk, pos) ==
  CASE tk[pos].k = "num" -> [a |-> Num(tk[pos].v), pos |-> pos + 1]
    [] tk[pos].k = "big" -> [a |-> [t |-> "big", b |-> tk[pos].b], pos |-> pos + 1]
    [] tk[pos].k = "sym" -> [a |-> Sym(tk[pos].s), pos |-> pos + 1]
    [] tk[pos].k = "arg" -> [a |-> [t |-> "arg", i |-> tk[pos].i], pos |-> pos + 1]
    [] tk[pos].k = "fn"  -> LET e == ParseExpr(tk, pos + 2, 0) IN [a |-> Fn(tk[pos].s, e.a), pos |-> e.pos + 1]
    [] tk[pos].k = "lp"  -> LET e == ParseExpr(tk, pos + 1, 0) IN [a |-> e.a, pos |-> e.pos + 1]
Parse(tk) == ParseExpr(tk, 1, 0).a

-----------------------------------------------------------------------------
(* Evaluation.  Result: [ok, un, v]; `un` marks an outcome the operator    *)
(* table leaves open (shift count outside 0..63, >> of a negative value,   *)
(* exp2 outside 0..62, -2^63 % -1, functions that are not in the table).   *)
(* env: [pc, labels (name -> Nat), sets (name -> value), equs (name -> AST)*)
(* evaluated on use].                                                      *)
Ok(v)  == [ok |-> TRUE, un |-> FALSE, v |-> v]
Err    == [ok |-> FALSE, un |-> FALSE, v |-> Zero]
Unspec == [ok |-> FALSE, un |-> TRUE, v |-> Zero]
Chk(v) == IF InI64(v) THEN Ok(v) ELSE Err            \* arithmetic overflow fails the build
Bool(b) == Ok(IF b THEN One ELSE Zero)

ShiftCount(y) == IF ~y.neg /\ Len(y.mag) <= 1 /\ ToInt(y) <= 63 THEN ToInt(y) ELSE -1

BinOp(op, x, y) ==
  CASE op = "+" -> Chk(Add(x, y))
    [] op = "-" -> Chk(Sub(x, y))
    [] op = "*" -> Chk(Mul(x, y))
    [] op = "/" -> IF IsZero(y) THEN Err ELSE Chk(DivT(x, y))
    [] op = "%" -> IF IsZero(y) THEN Err
                   ELSE IF x = MinI64 /\ y = Neg(One) THEN Unspec
                   ELSE Chk(RemT(x, y))
    [] op = "<<" -> IF ShiftCount(y) < 0 THEN Unspec ELSE Ok(Shl64(x, ShiftCount(y)))
    [] op = ">>" -> IF ShiftCount(y) < 0 \/ x.neg THEN Unspec ELSE Ok(ShrU64(x, ShiftCount(y)))
    [] op = "<"  -> Bool(Lt(x, y))
    [] op = "<=" -> Bool(Le(x, y))
    [] op = ">"  -> Bool(Lt(y, x))
    [] op = ">=" -> Bool(Le(y, x))
    [] op = "==" -> Bool(x = y)
    [] op = "!=" -> Bool(x # y)
    [] op = "&"  -> Ok(And64(x, y))
    [] op = "^"  -> Ok(Xor64(x, y))
    [] op = "|"  -> Ok(Or64(x, y))
    [] op = "&&" -> Bool(~IsZero(x) /\ ~IsZero(y))
    [] op = "||" -> Bool(~IsZero(x) \/ ~IsZero(y))

UnOp(op, x) ==
  CASE op = "-" -> Chk(Neg(x))
    [] op = "!" -> Bool(IsZero(x))
    [] op = "~" -> Ok(Not64(x))

FnOp(f, x) ==
  CASE f = "low"   -> Ok(Field(x, 1, 1))
    [] f \in {"high", "byte2"} -> Ok(Field(x, 2, 2))
    [] f = "byte3" -> Ok(Field(x, 3, 3))
    [] f = "byte4" -> Ok(Field(x, 4, 4))
    [] f = "lwrd"  -> Ok(Field(x, 1, 2))
    [] f = "hwrd"  -> Ok(Field(x, 3, 4))
    [] f = "exp2"  -> IF ~x.neg /\ Len(x.mag) <= 1 /\ ToInt(x) <= 62 THEN Ok(Pow2(ToInt(x))) ELSE Unspec
    [] OTHER -> Unspec

Comb(x, y, r) == IF (~x.ok /\ ~x.un) \/ (~y.ok /\ ~y.un) THEN Err      \* a definite error wins
                 ELSE IF x.un \/ y.un THEN Unspec ELSE r

RECURSIVE EvalD(_, _, _)
EvalD(a, env, d) ==
  CASE a.t = "num" -> Ok(FromInt(a.v))
    [] a.t = "big" -> Ok(FromBytes8(a.b))
    [] a.t = "sym" ->
         IF a.n = "pc" THEN Ok(FromInt(env.pc))
         ELSE IF a.n \in DOMAIN env.sets THEN Ok(env.sets[a.n])
         ELSE IF a.n \in DOMAIN env.labels THEN Ok(FromInt(env.labels[a.n]))
         ELSE IF a.n \in DOMAIN env.equs /\ d > 0 THEN EvalD(env.equs[a.n], env, d - 1)
         ELSE Err
    [] a.t = "par" -> EvalD(a.e, env, d)
    [] a.t \in {"arg", "bad"} -> Err                     \* a parameter outside a macro body / without argument
    [] a.t = "un"  -> LET x == EvalD(a.e, env, d) IN Comb(x, x, UnOp(a.op, x.v))
    [] a.t = "fn"  -> LET x == EvalD(a.e, env, d) IN Comb(x, x, FnOp(a.f, x.v))
    [] a.t = "bin" -> LET x == EvalD(a.l, env, d)
                          y == EvalD(a.r, env, d)
                      IN Comb(x, y, BinOp(a.op, x.v, y.v))

NoEnv == [pc |-> 0, labels |-> << >>, sets |-> << >>, equs |-> << >>]
Eval(a, env) == EvalD(a, env, 8)     \* chains of .equ up to 8 deep; a cycle ends in Err
=============================================================================
