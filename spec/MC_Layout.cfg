SPECIFICATION Spec
CONSTANT MaxLen = 4
INVARIANT Theorems
CHECK_DEADLOCK FALSE
