SPECIFICATION Spec
CONSTANT MaxDepth = 2
INVARIANT ParseRender
INVARIANT Minimal
CHECK_DEADLOCK FALSE
