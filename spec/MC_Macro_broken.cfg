SPECIFICATION Spec
CONSTANTS MaxBody = 2
          MaxTop = 1
          Broken = TRUE
INVARIANT HandExpanded
CHECK_DEADLOCK FALSE
