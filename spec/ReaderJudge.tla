---------------------------- MODULE ReaderJudge ----------------------------
(***************************************************************************)
(* The judge of the reader's line events (hooks rbegin rend rline sline    *)
(* mline), on the conditional stack of Cond.tla.  Used by Trace_Pipeline   *)
(* on recorded events; MC_CondMachine checks it against the reference      *)
(* reader for programs of any length (JudgeComplete, JudgeSound).          *)
(***************************************************************************)
EXTENDS Cond
(* The reader (C08 on every line of every input): the hooks report every   *)
(* line the reader takes from a line source and what it did with it --     *)
(*   rline  handed to the assembler (for .if/.ifdef/.ifndef/.elif: taken = *)
(*          1 / 0 as evaluated, -1 when it was not evaluated)              *)
(*   sline  passed over while skipping an unselected branch                *)
(*   mline  recorded into a macro body                                     *)
(* with cls the kind of line (a conditional directive, or "other").  The   *)
(* conditional stack of Assembler.tla is replayed on them: a line that is  *)
(* handed on must stand where all enclosing branches are selected, a line  *)
(* that is passed over must not, a condition is evaluated exactly when no  *)
(* earlier branch of its chain was taken.                                  *)
Push(c, b) == Append(c, Frame(b))

\* [c |-> new conditional stack, ok |-> explained]
ReaderStep(c, e) ==
  LET opener == e.cls \in {"if", "ifdef", "ifndef"} IN
  CASE e.ev = "mline" -> [c |-> c, ok |-> TRUE]                    \* recorded text, whatever it is: no effect on the reader
    [] e.ev = "rline" /\ opener ->
         [c |-> Push(c, e.taken = 1), ok |-> AllActive(c) /\ e.taken \in {0, 1}]
    [] e.ev = "sline" /\ opener ->
         [c |-> Append(c, [active |-> FALSE, taken |-> TRUE, else |-> FALSE]), ok |-> ~AllActive(c)]
    [] e.cls = "elif" /\ c = << >> -> [c |-> c, ok |-> e.ev = "rline"]      \* ill-formed input: not judged further
    [] e.ev = "rline" /\ e.cls = "elif" /\ e.taken \in {0, 1} ->           \* evaluated: no branch may have been taken yet
         [c |-> SetTop(c, [Top(c) EXCEPT !.active = e.taken = 1, !.taken = e.taken = 1]),
          ok |-> ParentActive(c) /\ ~Top(c).taken /\ ~Top(c).else]
    [] e.ev = "rline" /\ e.cls = "elif" ->                                   \* not evaluated: a branch was taken before
         [c |-> SetTop(c, [Top(c) EXCEPT !.active = FALSE]), ok |-> ParentActive(c) /\ Top(c).taken]
    [] e.ev = "sline" /\ e.cls = "elif" ->                                   \* passed over: it was not its turn
         [c |-> SetTop(c, [Top(c) EXCEPT !.active = FALSE]), ok |-> ~(ParentActive(c) /\ ~Top(c).taken)]
    [] e.cls = "else" /\ c = << >> -> [c |-> c, ok |-> e.ev = "rline"]
    [] e.cls = "else" ->
         \* reached while assembling: the branch before it was taken; met while skipping: selected iff nothing was taken
         [c |-> SetTop(c, [active |-> ParentActive(c) /\ ~Top(c).taken, taken |-> TRUE, else |-> TRUE]),
          ok |-> IF e.ev = "rline" THEN AllActive(c) ELSE ~AllActive(c)]
    [] e.cls = "endif" /\ c = << >> -> [c |-> c, ok |-> e.ev = "rline"]
    [] e.cls = "endif" -> [c |-> Pop(c), ok |-> (e.ev = "rline") = AllActive(c)]
    [] e.ev = "rline" -> [c |-> c, ok |-> AllActive(c)]          \* a line with an effect stands in selected branches only
    [] e.ev = "sline" -> [c |-> c, ok |-> ~AllActive(c)]         \* a line of a selected branch is never passed over
    [] OTHER -> [c |-> c, ok |-> TRUE]                           \* mline: recorded text

ReaderEvents == {"rbegin", "rend", "rline", "sline", "mline"}
Reader(r, e) ==
  CASE e.ev = "rbegin" -> [r |-> Append(r, << >>), ok |-> TRUE]
    [] e.ev = "rend"   -> [r |-> IF r = << >> THEN r ELSE Pop(r), ok |-> TRUE]
    [] r = << >>       -> [r |-> r, ok |-> TRUE]                 \* events of a source whose begin was not seen
    [] OTHER -> LET x == ReaderStep(Top(r), e) IN [r |-> SetTop(r, x.c), ok |-> x.ok]

=============================================================================
