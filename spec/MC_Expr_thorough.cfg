SPECIFICATION Spec
CONSTANT MaxDepth = 3
INVARIANT ParseRender
INVARIANT Minimal
CHECK_DEADLOCK FALSE
