----------------------------- MODULE Export_Isa -----------------------------
(* Prints the tables the generators enumerate from (no behaviour).          *)
EXTENDS AvrIsa, Json, SequencesExt
D == INSTANCE Devices
Table ==
  [ mnemonics |-> SetToSeq(Mnemonics),
    sigs      |-> [mn \in Mnemonics |-> [classic |-> SetToSeq(Sigs(mn, "classic")),
                                          reduced |-> SetToSeq(Sigs(mn, "reduced"))]],
    len       |-> [mn \in Mnemonics |-> [classic |-> Len16(mn, "classic"), reduced |-> Len16(mn, "reduced")]],
    regclass  |-> [c \in DOMAIN RegClass |-> SetToSeq(RegClass[c])],
    numclass  |-> NumClass,
    relclass  |-> RelClass,
    mulfamily |-> SetToSeq(D!MulFamily),
    tiny1x    |-> SetToSeq(D!Tiny1xLacks) ]
ASSUME PrintT(<<"TABLE", ToJson(Table)>>)
=============================================================================
