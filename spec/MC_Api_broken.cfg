SPECIFICATION Spec
CONSTANTS Threads = {0, 1}
          Programs = {"pA", "pB", "pC", "pR"}
          Envs = {"e1", "e2"}
          Broken = TRUE
          Latched = FALSE
INVARIANT Independent
CHECK_DEADLOCK FALSE
