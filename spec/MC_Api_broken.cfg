SPECIFICATION Spec
CONSTANTS Threads = {0, 1}
          Programs = {"pA", "pB", "pC"}
          Broken = TRUE
INVARIANT Independent
CHECK_DEADLOCK FALSE
