-------------------------------- MODULE Files --------------------------------
(***************************************************************************)
(* The file layer on top of Assembler: .include, .includepath, .exit.      *)
(* fs: path -> [dir |-> directory of the file, lines |-> abstract lines]   *)
(* Paths are canonical strings (no "." or ".." components); a path written *)
(* in a directive carries abs (BOOLEAN).                                   *)
(* A file is searched at the path as written (relative to the process      *)
(* directory), in the directory of the including file, in the directories  *)
(* the caller supplied and in those added by earlier .includepath          *)
(* directives (a relative one resolved against the file containing it).    *)
(* The statement gives no priority between these places; layouts in which  *)
(* a name exists in more than one of them are not generated.               *)
(***************************************************************************)
EXTENDS Assembler

Join(d, p) == d \o "/" \o p

Candidates(p, abs, cwd, thisdir, incdirs) ==
  IF abs THEN {p} ELSE {Join(d, p) : d \in {cwd, thisdir} \cup incdirs}

\* the line is about to be executed (not recorded into a macro, not in an unselected branch)
Executes(rs, line) == rs.err = 0 /\ ~rs.stop /\ rs.rec = "" /\ line.k \notin CondKinds /\ AllActive(rs.cond)

RECURSIVE ReadFile(_, _, _, _, _), ReadFileFrom(_, _, _, _, _, _)
ReadFile(fs, cwd, rs, path, depth) == 
  LET r == ReadFileFrom(fs, cwd, rs, path, 1, depth) IN [r EXCEPT !.stop = FALSE]   \* .exit ends only this file
ReadFileFrom(fs, cwd, rs, path, i, depth) ==
  LET f == fs[path] IN
  IF i > Len(f.lines) THEN rs
  ELSE LET line == f.lines[i] IN
       IF Executes(rs, line) /\ line.k = "include"
       THEN LET c == Candidates(line.p, line.abs, cwd, f.dir, rs.incdirs) \cap DOMAIN fs IN
            IF c = {} \/ depth = 0 THEN [rs EXCEPT !.err = line.ln, !.missing = line.p]
            ELSE ReadFileFrom(fs, cwd, ReadFile(fs, cwd, rs, CHOOSE x \in c : TRUE, depth - 1), path, i + 1, depth)
       ELSE IF Executes(rs, line) /\ line.k = "includepath"
       THEN ReadFileFrom(fs, cwd, [rs EXCEPT !.incdirs = @ \cup {IF line.abs THEN line.p
                                                                 ELSE IF line.p = "." THEN f.dir      \* the file's own directory
                                                                 ELSE Join(f.dir, line.p)}],
                         path, i + 1, depth)
       ELSE ReadFileFrom(fs, cwd, StepRead(rs, line), path, i + 1, depth)

\* files may be nested this deep below the main file; deeper nesting is refused (it is taken for a file including itself)
MaxIncludeDepth == 32

InitFiles(devs, callerdirs) == [x \in DOMAIN InitRead(devs) \cup {"incdirs", "missing"} |->
                                  IF x = "incdirs" THEN callerdirs ELSE IF x = "missing" THEN "" ELSE InitRead(devs)[x]]

RunTree(fs, cwd, main, callerdirs, devs, mat) ==
  LET r0 == ReadFile(fs, cwd, InitFiles(devs, callerdirs), main, MaxIncludeDepth)
      x  == Finish(ExpandAll(r0), mat)
  IN IF x.ok THEN x ELSE [ok |-> FALSE, line |-> x.line, phase |-> x.phase, missing |-> r0.missing]
=============================================================================
