------------------------------- MODULE MC_Api -------------------------------
(***************************************************************************)
(* Model-checks the session machine of Api.tla (Independent holds), a      *)
(* broken variant with a writable shared device selection and one that     *)
(* remembers the working directory of the first build (Independent must    *)
(* fail for both: non-vacuity), and generates every complete schedule of the   *)
(* stage steps of the concurrent builds (GEN: printed as REPLAY lines and  *)
(* replayed with real threads by the harness).                             *)
(***************************************************************************)
EXTENDS Integers, Sequences, FiniteSets, TLC, Json
CONSTANTS Threads, Programs, Broken, Latched, Envs
\* abstract results: a program's result alone is determined by the device it selects (or none)
DeviceOf == [p \in Programs |-> IF p = "pA" THEN "devA" ELSE IF p = "pB" THEN "devB" ELSE "none"]
\* "pR" names its include path relatively: what it assembles depends on the working directory it is started in
ReadsEnv(p) == p = "pR"
Alone == [p \in Programs |-> [e \in Envs |-> <<p, DeviceOf[p], IF ReadsEnv(p) THEN e ELSE "-">>]]
VARIABLES running, done, shared, sched, env, latch
vars == <<running, done, shared, sched, env, latch>>
NStages == 4
IdleRec == [p |-> "", s |-> -1, dev |-> "none", e |-> "-"]
E0 == CHOOSE e \in Envs : TRUE
Idle(t) == running[t].s = -1
Init == running = [t \in Threads |-> IdleRec] /\ done = << >> /\ shared = "none" /\ sched = << >> /\ env = E0 /\ latch = "-"
\* the caller changes the working directory between builds
Chdir(d) == /\ \A t \in Threads : Idle(t)
            /\ d # env /\ env' = d
            /\ UNCHANGED <<running, done, shared, sched, latch>>
Start(t, p) == /\ Idle(t) /\ \A i \in 1..Len(done) : done[i].t # t     \* one build per thread in this model
               \* the latched variant takes the working directory of the first build of the process for every later one
               /\ latch' = (IF latch = "-" THEN env ELSE latch)
               /\ running' = [running EXCEPT ![t] = [p |-> p, s |-> 0, dev |-> "none", e |-> IF Latched THEN latch' ELSE env]]
               /\ UNCHANGED <<done, shared, sched, env>>
\* stage 1 (parse) selects the device; the broken variant keeps the selection in a variable shared by all builds
Stage(t) == /\ ~Idle(t) /\ running[t].s < NStages
            /\ sched' = Append(sched, t)
            /\ IF running[t].s = 0
               THEN IF Broken
                    THEN /\ shared' = (IF DeviceOf[running[t].p] # "none" THEN DeviceOf[running[t].p] ELSE shared)
                         /\ running' = [running EXCEPT ![t].s = 1]
                    ELSE /\ running' = [running EXCEPT ![t].s = 1, ![t].dev = DeviceOf[running[t].p]]
                         /\ UNCHANGED shared
               ELSE /\ running' = [running EXCEPT ![t].s = @ + 1] /\ UNCHANGED shared
            /\ UNCHANGED <<done, env, latch>>
End(t) == /\ ~Idle(t) /\ running[t].s = NStages
          /\ done' = Append(done, [t |-> t, p |-> running[t].p, e |-> env,
                                   r |-> <<running[t].p, IF Broken THEN shared ELSE running[t].dev,
                                           IF ReadsEnv(running[t].p) THEN running[t].e ELSE "-">>])
          /\ running' = [running EXCEPT ![t] = IdleRec]
          /\ UNCHANGED <<shared, sched, env, latch>>
Next == (\E d \in Envs : Chdir(d)) \/ \E t \in Threads : (\E p \in Programs : Start(t, p)) \/ Stage(t) \/ End(t)
Spec == Init /\ [][Next]_vars
\* (the working directory cannot change while a build runs, so the one at the end is the one at the start)
Independent == \A i \in 1..Len(done) : done[i].r = Alone[done[i].p][done[i].e]
\* GEN: a schedule is complete when every thread has run all its stages
Complete == Len(sched) = NStages * Cardinality(Threads)
PrintSchedules == Complete /\ Len(done) = 0 /\ env = E0 /\ (\A t \in Threads : ~Idle(t) /\ running[t].p = "pA") => PrintT(<<"REPLAY", ToJson(sched)>>)
=============================================================================
