------------------------------- MODULE MC_Api -------------------------------
(***************************************************************************)
(* Model-checks the session machine of Api.tla (Independent holds), a      *)
(* broken variant with a writable shared device selection (Independent     *)
(* must fail: non-vacuity), and generates every complete schedule of the   *)
(* stage steps of the concurrent builds (GEN: printed as REPLAY lines and  *)
(* replayed with real threads by the harness).                             *)
(***************************************************************************)
EXTENDS Integers, Sequences, FiniteSets, TLC, Json
CONSTANTS Threads, Programs, Broken
\* abstract results: a program's result alone is determined by the device it selects (or none)
DeviceOf == [p \in Programs |-> IF p = "pA" THEN "devA" ELSE IF p = "pB" THEN "devB" ELSE "none"]
Alone == [p \in Programs |-> <<p, DeviceOf[p]>>]
VARIABLES running, done, shared, sched
vars == <<running, done, shared, sched>>
NStages == 4
IdleRec == [p |-> "", s |-> -1, dev |-> "none"]
Idle(t) == running[t].s = -1
Init == running = [t \in Threads |-> IdleRec] /\ done = << >> /\ shared = "none" /\ sched = << >>
Start(t, p) == /\ Idle(t) /\ \A i \in 1..Len(done) : done[i].t # t     \* one build per thread in this model
               /\ running' = [running EXCEPT ![t] = [p |-> p, s |-> 0, dev |-> "none"]]
               /\ UNCHANGED <<done, shared, sched>>
\* stage 1 (parse) selects the device; the broken variant keeps the selection in a variable shared by all builds
Stage(t) == /\ ~Idle(t) /\ running[t].s < NStages
            /\ sched' = Append(sched, t)
            /\ IF running[t].s = 0
               THEN IF Broken
                    THEN /\ shared' = (IF DeviceOf[running[t].p] # "none" THEN DeviceOf[running[t].p] ELSE shared)
                         /\ running' = [running EXCEPT ![t].s = 1]
                    ELSE /\ running' = [running EXCEPT ![t].s = 1, ![t].dev = DeviceOf[running[t].p]]
                         /\ UNCHANGED shared
               ELSE /\ running' = [running EXCEPT ![t].s = @ + 1] /\ UNCHANGED shared
            /\ UNCHANGED done
End(t) == /\ ~Idle(t) /\ running[t].s = NStages
          /\ done' = Append(done, [t |-> t, p |-> running[t].p,
                                   r |-> <<running[t].p, IF Broken THEN shared ELSE running[t].dev>>])
          /\ running' = [running EXCEPT ![t] = IdleRec]
          /\ UNCHANGED <<shared, sched>>
Next == \E t \in Threads : (\E p \in Programs : Start(t, p)) \/ Stage(t) \/ End(t)
Spec == Init /\ [][Next]_vars
Independent == \A i \in 1..Len(done) : done[i].r = Alone[done[i].p]
\* GEN: a schedule is complete when every thread has run all its stages
Complete == Len(sched) = NStages * Cardinality(Threads)
PrintSchedules == Complete /\ Len(done) = 0 /\ (\A t \in Threads : ~Idle(t) /\ running[t].p = "pA") => PrintT(<<"REPLAY", ToJson(sched)>>)
=============================================================================
