------------------------------- MODULE MC_Cond -------------------------------
(***************************************************************************)
(* Model-checks the conditional-assembly part of Assembler.tla against the *)
(* property's own wording.  A program grows by one line per step (only     *)
(* well-formed prefixes); for every complete program TLC checks            *)
(*                                                                         *)
(*  SelectedAgree  the lines the operational reader (a stack of frames     *)
(*                 with a taken flag, StepRead) assembles are exactly the  *)
(*                 lines the declarative reading selects: "the first       *)
(*                 branch whose condition holds, or .else when none does;  *)
(*                 nested constructs count only inside a selected branch"  *)
(*                 (a structural recursion over the text, no stack);       *)
(*  Filtered       the program and the program with its conditional        *)
(*                 directives and unselected lines deleted build to the    *)
(*                 same result;                                            *)
(*  and, with Broken = TRUE, that the reader the implementation had (a     *)
(*  nesting counter and no taken flag: an .elif after an assembled branch  *)
(*  is evaluated) violates SelectedAgree -- non-vacuity.                   *)
(***************************************************************************)
EXTENDS Assembler
CONSTANTS MaxLen, MaxDepth_, Broken

L(k) == [k |-> k, ln |-> 0, lab |-> ""]
If(c)   == [L("if") EXCEPT !.k = "if"] @@ [e |-> Num(c)]
Elif(c) == L("elif") @@ [e |-> Num(c)]
IfK     == L("if") @@ [e |-> Bin("==", Sym("kk"), Num(1))]          \* on an .equ defined in the first line
Ifdef   == L("ifdef") @@ [n |-> "FLAG"]
Ifndef  == L("ifndef") @@ [n |-> "FLAG"]
Define  == L("define") @@ [n |-> "FLAG"]
Mark(i) == L("instr") @@ [mn |-> "ldi", ops |-> <<[k |-> "r", n |-> 16], [k |-> "e", e |-> Num(i)]>>]
Garbage == L("garbage")
Openers == {If(0), If(1), IfK, Ifdef, Ifndef}
Elifs   == {Elif(0), Elif(1)}

VARIABLES prog,     \* the lines so far (after the leading .equ kk = 1)
          shape     \* per open construct: has its .else been seen
vars == <<prog, shape>>
Preamble == <<L("equ") @@ [n |-> "kk", e |-> Num(1)]>>
Number(p) == [i \in 1..Len(p) |-> [p[i] EXCEPT !.ln = i]]
Whole == Number(Preamble \o prog)

Init == prog = << >> /\ shape = << >>
Grow ==
  /\ Len(prog) < MaxLen
  /\ \/ \E o \in Openers : Len(shape) < MaxDepth_ /\ prog' = Append(prog, o) /\ shape' = Append(shape, FALSE)
     \/ \E e \in Elifs : shape # << >> /\ ~shape[Len(shape)] /\ prog' = Append(prog, e) /\ UNCHANGED shape
     \/ shape # << >> /\ ~shape[Len(shape)] /\ prog' = Append(prog, L("else"))
        /\ shape' = [shape EXCEPT ![Len(shape)] = TRUE]
     \/ shape # << >> /\ prog' = Append(prog, L("endif")) /\ shape' = SubSeq(shape, 1, Len(shape) - 1)
     \/ \E s \in {Define, Mark(Len(prog) + 1), Garbage} : prog' = Append(prog, s) /\ UNCHANGED shape
Spec == Init /\ [][Grow]_vars
Complete == shape = << >>

-----------------------------------------------------------------------------
(* the operational reader, instrumented: which lines does it assemble      *)
BrokenCondStep(rs, line) ==       \* the implementation's former logic: no taken flag
  IF line.k = "elif" /\ Len(rs.cond) > 0 /\ ParentActive(rs.cond) /\ rs.cond[Len(rs.cond)].active
  THEN LET v == CondValue(rs, line.e) IN
       [rs EXCEPT !.cond[Len(rs.cond)].active = ~IsZero(v.v)]   \* evaluated although a branch was assembled
  ELSE CondStep(rs, line)
Reader(rs, line) == IF Broken /\ line.k \in CondKinds /\ rs.rec = "" THEN BrokenCondStep(rs, line) ELSE StepRead(rs, line)
RECURSIVE OpFrom(_, _, _, _)
OpFrom(rs, lines, i, acc) ==
  IF i > Len(lines) THEN acc
  ELSE LET line == lines[i]
           assembled == rs.err = 0 /\ ~rs.stop /\ line.k \notin CondKinds /\ AllActive(rs.cond)
       \* (an error does not end the walk here: selection is about which lines are looked at)
       IN OpFrom([Reader(rs, line) EXCEPT !.err = 0], lines, i + 1, IF assembled THEN acc \cup {i} ELSE acc)
SelectedOp(lines) == OpFrom(InitRead(<< >>), lines, 1, {})

-----------------------------------------------------------------------------
(* the declarative reading: structural recursion, no stack                 *)
\* index of the directive that closes or continues the construct opened before `from` (depth 0)
RECURSIVE NextArm(_, _, _)
NextArm(lines, i, depth) ==
  IF lines[i].k \in {"if", "ifdef", "ifndef"} THEN NextArm(lines, i + 1, depth + 1)
  ELSE IF lines[i].k = "endif" THEN (IF depth = 0 THEN i ELSE NextArm(lines, i + 1, depth - 1))
  ELSE IF lines[i].k \in {"elif", "else"} /\ depth = 0 THEN i
  ELSE NextArm(lines, i + 1, depth)
RECURSIVE EndOf(_, _)
EndOf(lines, i) == LET a == NextArm(lines, i, 0) IN IF lines[a].k = "endif" THEN a ELSE EndOf(lines, a + 1)

Holds(line, env) ==
  CASE line.k \in {"if", "elif"} -> ~IsZero(Eval(line.e, [pc |-> 0, labels |-> << >>, sets |-> << >>, equs |-> env.equs]).v)
    [] line.k = "ifdef"  -> line.n \in env.defines
    [] line.k = "ifndef" -> line.n \notin env.defines
    [] line.k = "else"   -> TRUE

RECURSIVE Sel(_, _, _, _), Arms(_, _, _)
\* lines lo..hi at one nesting level; returns the selected line numbers and the definitions made
Sel(lines, lo, hi, env) ==
  IF lo > hi THEN [sel |-> {}, env |-> env]
  ELSE LET line == lines[lo] IN
       IF line.k \in {"if", "ifdef", "ifndef"}
       THEN LET end == EndOf(lines, lo + 1)
                r   == Arms(lines, lo, env)               \* the first arm whose condition holds, or .else
                rest == Sel(lines, end + 1, hi, r.env)
            IN [sel |-> r.sel \cup rest.sel, env |-> rest.env]
       ELSE LET env1 == CASE line.k = "define" -> [env EXCEPT !.defines = @ \cup {line.n}]
                          [] line.k = "equ"    -> [env EXCEPT !.equs = (line.n :> line.e) @@ @]
                          [] OTHER -> env
                rest == Sel(lines, lo + 1, hi, env1)
            IN [sel |-> {lo} \cup rest.sel, env |-> rest.env]
\* arm starting with the directive at index a (if / elif / else): select its body if its condition holds, else try the next arm
Arms(lines, a, env) ==
  LET nxt == NextArm(lines, a + 1, 0) IN
  IF Holds(lines[a], env) THEN Sel(lines, a + 1, nxt - 1, env)
  ELSE IF lines[nxt].k = "endif" THEN [sel |-> {}, env |-> env]
  ELSE Arms(lines, nxt, env)
SelectedDecl(lines) == Sel(lines, 1, Len(lines), [defines |-> {}, equs |-> << >>]).sel

-----------------------------------------------------------------------------
SelectedAgree == Complete => SelectedOp(Whole) = SelectedDecl(Whole)

Filter(lines) == SelectSeq(lines, LAMBDA x : x.ln \in SelectedDecl(lines))
Same(x, y) == /\ x.ok = y.ok
              /\ x.ok => x.code = y.code /\ x.eeprom = y.eeprom /\ x.ramfill = y.ramfill
              /\ ~x.ok => x.line = y.line
Filtered == Complete => Same(Run(Whole, << >>, TRUE), Run(Filter(Whole), << >>, TRUE))
=============================================================================
