SPECIFICATION Spec
CONSTANTS MaxLen = 7
          MaxDepth_ = 3
          Broken = FALSE
INVARIANT SelectedAgree
INVARIANT Filtered
CHECK_DEADLOCK FALSE
