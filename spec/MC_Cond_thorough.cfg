SPECIFICATION Spec
CONSTANTS MaxLen = 8
          MaxDepth_ = 3
          Broken = FALSE
INVARIANT SelectedAgree
INVARIANT Filtered
CHECK_DEADLOCK FALSE
