--------------------------------- MODULE Api ---------------------------------
(***************************************************************************)
(* The library as seen by a caller.                                        *)
(*                                                                         *)
(* 1. The total-function contract (C16): every build of any text ends in   *)
(*    "ok" or "err".  The module also defines the bounded-exhaustive       *)
(*    input space: HostileLine = head x up to three operand texts.         *)
(* 2. Build sessions (C17): threads start builds of programs, pass the     *)
(*    stages, and end with a result; nothing but the immutable device      *)
(*    table is shared, so every build ends with the result the same        *)
(*    program has when it is built alone.                                  *)
(***************************************************************************)
EXTENDS Integers, Sequences, FiniteSets, TLC
Isa == INSTANCE AvrIsa

Directives == {".byte", ".cseg", ".csegsize", ".db", ".def", ".device", ".dseg", ".dw", ".endm", ".endmacro",
               ".equ", ".eseg", ".exit", ".include", ".includepath", ".list", ".listmac", ".macro", ".nolist",
               ".org", ".set", ".define", ".else", ".elif", ".endif", ".error", ".if", ".ifdef", ".ifndef",
               ".message", ".dd", ".dq", ".undef", ".warning", ".overlap", ".nooverlap", ".pragma",
               "#define", "#pragma", "#if", "#endif", ".nosuchdirective", "label:", "nosuchmacro"}
Heads == Directives \cup Isa!Mnemonics

\* operand texts: valid, boundary, hostile
Dict == << "r0", "r16", "r31", "r32", "X", "Y+", "-Z", "Y+5", "Z+63", "X+1",
           "0", "1", "7", "255", "0x10", "lbl", "pc", "low(300)", "\"str\"", "'c'", "1+2",
           "-1", "256", "65536", "4194304", "9223372036854775807", "-9223372036854775807",
           "", "9223372036854775808", "99999999999999999999999", "1<<64", "1/0", "-9223372036854775807-2",
           "(", "((1)", "@9", "\"unterminated", "''", "exp2(70)", "nosuchfn(1)", "~", "0x", "a = b", "=",
           "ATmega48", "a = a", "(1<<63) % -1", "(1<<63) / -1", "-(1<<63)", "1<<63>>63", "5 % -1",
           "0xFFFFFFFF", "4294967296", "0x7FFFFFFF", "\"rel/dir\"", "@0+@0" >>

\* contexts a line can stand in (each head with at most one operand is put into each of them)
Contexts == << <<"", "">>,                                         \* on its own
               <<".if 0\n", "\n.endif\n">>,                        \* in a skipped branch
               <<".if 1\n", "\n.endif\n">>,                        \* in an assembled branch
               <<".if 0\n.endif\n.if 0\nnop\n", "\nnop\n.else\nnop\n.endif\n">>,   \* where an .elif / .else is looked for
               <<".ifdef NOPE\n", "\n.else\nnop\n.endif\n">>,
               <<".macro m\n", "\n.endm\nm r16, 1\n">>,            \* in a macro body that is called
               <<".macro m\n.if @1\n", "\n.endif\n.endm\nm r16, 0\nm r17, 1\n">>,
               <<".dseg\n", "\n.cseg\nnop\n">>,
               <<".eseg\n.db 1\n", "\n.db 2\n">>,
               <<".device ATtiny2313\n.eseg\n", "\n">>,
               <<".device ATtiny13\n.org 500\n", "\nnop\n">> >>

Outcomes == {"ok", "err", "panic", "abort", "timeout", "oom", "shape"}
Total(outcome) == outcome \in {"ok", "err"}

\* number of single-line programs for one head and one first operand, with up to `arity` operands
GroupSize(first, arity) ==
  IF first = -1 THEN 1
  ELSE IF arity = 1 THEN 1
  ELSE IF arity = 2 THEN 1 + Len(Dict)
  ELSE 1 + Len(Dict) + Len(Dict) * Len(Dict)

-----------------------------------------------------------------------------
(* Build sessions.                                                         *)
CONSTANTS Threads, Programs, Alone     \* Alone[Key(p, e)]: the result of building p alone, in a fresh process whose environment is e
Stages == <<"parse", "pass0", "pass1", "pass2", "limits">>

(* The environment of the process: its working directory, which a build reads  *)
(* (relative names of main files, include files and include paths are resolved *)
(* against it) and which the caller may change between builds.  A program is   *)
(* source text + caller-supplied directories; together with the environment it *)
(* stands in at its start it determines the result.  A program that reads the  *)
(* environment (it names files relatively) has one entry of Alone per          *)
(* environment, under p@e; every other program has one entry, under p.         *)
NoEnv == ""
ReadsEnv(p, e) == (p \o "@" \o e) \in DOMAIN Alone
Key(p, e) == IF ReadsEnv(p, e) THEN p \o "@" \o e ELSE p

VARIABLES running,   \* thread -> [p, s (stage index), e (environment at the start)]; s = -1: idle
          done,      \* sequence of [t, p, r]: builds that ended, in order
          env        \* the working directory of the process
sessvars == <<running, done, env>>

IdleRec == [p |-> "", s |-> -1, e |-> NoEnv]
Idle(t) == running[t].s = -1
SessInit == running = [t \in Threads |-> IdleRec] /\ done = << >> /\ env = NoEnv
\* the caller changes the working directory; the process has one, so this is the caller's to do while no build runs
Chdir(d) == /\ \A t \in Threads : Idle(t)
            /\ env' = d
            /\ UNCHANGED <<running, done>>
Start(t, p) == /\ Idle(t)
               /\ running' = [running EXCEPT ![t] = [p |-> p, s |-> 0, e |-> env]]
               /\ UNCHANGED <<done, env>>
Stage(t) == /\ ~Idle(t) /\ running[t].s < Len(Stages)
            /\ running' = [running EXCEPT ![t].s = @ + 1]
            /\ UNCHANGED <<done, env>>
\* the result depends on the program and the environment it was started in, on nothing else: nothing a build touches is
\* visible to another, and nothing of an earlier environment is remembered
End(t) == /\ ~Idle(t) /\ running[t].s = Len(Stages)
          /\ done' = Append(done, [t |-> t, p |-> running[t].p, e |-> running[t].e, r |-> Alone[Key(running[t].p, running[t].e)]])
          /\ running' = [running EXCEPT ![t] = IdleRec]
          /\ UNCHANGED env
SessNext == \E t \in Threads : (\E p \in Programs : Start(t, p)) \/ Stage(t) \/ End(t)
Independent == \A i \in 1..Len(done) : done[i].r = Alone[Key(done[i].p, done[i].e)]
=============================================================================
